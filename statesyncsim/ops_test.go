package statesyncsim

import (
	"bytes"
	"time"

	"github.com/tendermint/tendermint/p2p"
	ssproto "github.com/tendermint/tendermint/proto/tendermint/statesync"
	"github.com/tendermint/tendermint/statesync"

	"verif/simcore"
)

var tickMs = []int{53, 507, 2111, 5003, 10513, 26021, 61007, 125003}

// ---------------------------------------------------------------- op generation

func (s *sim) alivePeers() []int {
	var out []int
	for i, a := range s.alive {
		if a {
			out = append(out, i)
		}
	}
	return out
}

// mayAdvertise: an entry whose (height, format) twin exists may only be in the pool when the
// twin is blacklisted by the application (two pool entries that rank equally would be ordered
// by Go map iteration inside snapshotPool.Ranked).
func (s *sim) mayAdvertise(k int) bool {
	c := s.cat[k]
	if c.Kind == "twin" {
		return c.Twin >= 0 && c.Twin < len(s.cat) && s.rejectedSnap[s.cat[c.Twin].key()]
	}
	return true
}

func (s *sim) advertisable(p int) []int {
	var out []int
	for _, k := range s.has[p] {
		if k >= 0 && k < len(s.cat) && s.mayAdvertise(k) {
			out = append(out, k)
		}
	}
	return out
}

// entryFor finds the catalogue entry a peer would serve chunks of (h, f) from.
func (s *sim) entryFor(p int, h uint64, f uint32) int {
	for _, k := range s.has[p] {
		if k < len(s.cat) && s.cat[k].H == h && s.cat[k].F == f && s.cat[k].Kind != "twin" {
			return k
		}
	}
	for k := range s.cat {
		if s.cat[k].H == h && s.cat[k].F == f {
			return k
		}
	}
	return -1
}

func (s *sim) Next(rng *simcore.RNG) simcore.Op {
	if s.opsLeft <= 0 || s.initFailed {
		return nil
	}
	if done, _, _, _ := s.result(); done {
		return nil
	}
	if s.mode == "wild" && s.idleOps > 60 && s.pendingCall() == nil {
		return nil // nothing has happened at the application or on the wire for a long while
	}
	if s.mode != "wild" && (s.contractBroken != "" || s.now()-s.lastProgress > stuckAfter+5*time.Second) {
		return nil // Finish judges
	}
	s.opsLeft--
	wild := s.mode == "wild"
	flag := func(n string) bool { return wild && s.cfg.Bool(n) }
	pend := s.pendingCall()
	alive := s.alivePeers()
	var dead []int
	for i, a := range s.alive {
		if !a {
			dead = append(dead, i)
		}
	}
	var snapAns []int
	fresh := false // some peer has not yet advertised everything it has on this connection
	for _, p := range alive {
		if ks := s.advertisable(p); s.snapReqs[p] > 0 && len(ks) > 0 {
			snapAns = append(snapAns, p)
			for _, k := range ks {
				if !s.adverts[p][s.cat[k].key()] {
					fresh = true
				}
			}
		}
	}
	const (
		aVerdict = iota
		aAnsChunk
		aAnsSnap
		aSpontSnap
		aSpontChunk
		aAddPeer
		aRmPeer
		aTick
		aRPC
		aGrow
		aBadMsg
		aDrop
		nActs
	)
	w := make([]int, nActs)
	if pend != nil && !pend.answered {
		w[aVerdict] = 60
	}
	if len(s.outstanding) > 0 && len(alive) > 0 {
		w[aAnsChunk] = 30
	}
	if len(snapAns) > 0 {
		w[aAnsSnap] = 3
		if fresh {
			w[aAnsSnap] = 25
		}
	}
	if wild && len(alive) > 0 {
		w[aSpontSnap] = 2
	}
	if flag("f_chunk") && len(alive) > 0 && s.m.live() {
		w[aSpontChunk] = 7
	}
	if len(dead) > 0 {
		w[aAddPeer] = 5
		if len(alive) == 0 {
			w[aAddPeer] = 40
		}
	}
	if flag("f_churn") && len(alive) > 0 {
		w[aRmPeer] = 2
	}
	w[aTick] = 8
	if w[aVerdict]+w[aAnsChunk] == 0 && !fresh {
		w[aTick] = 40
	}
	// cooperative modes: keep the contract (see forceAfter)
	tickCap := len(tickMs)
	var oldest *chunkReq
	var droppable []chunkReq
	if !wild {
		if w[aVerdict] > 0 || fresh || len(alive) == 0 {
			w[aTick] = 0
		}
		for i := range s.outstanding {
			r := &s.outstanding[i]
			if oldest == nil || r.at < oldest.at {
				oldest = r
			}
			if s.drops[[3]uint64{r.h, uint64(r.f), uint64(r.i)}] < s.dropBudget() {
				droppable = append(droppable, *r)
			}
		}
		if oldest != nil {
			tickCap = 3 // at most 2111 ms at a time while an answer is owed
			if s.now()-oldest.at > forceAfter && w[aVerdict] == 0 {
				for i := range w {
					w[i] = 0
				}
				w[aAnsChunk] = 1
			} else {
				oldest = nil
			}
		}
		if len(droppable) > 0 && w[aAnsChunk] > 1 {
			w[aDrop] = 5
		}
	}
	if flag("f_rpc") && len(s.rpc) == 2 {
		w[aRPC] = 1
	}
	if wild && s.grown < 2 {
		w[aGrow] = 1
	}
	if flag("f_badmsg") && len(alive) > 0 {
		w[aBadMsg] = 1
	}
	switch rng.Weighted(w) {
	case aVerdict:
		return s.drawVerdict(rng, pend)
	case aAnsChunk:
		r := s.outstanding[rng.Intn(len(s.outstanding))]
		if oldest != nil {
			r = *oldest
		}
		p := r.peer
		if !s.alive[p] || (flag("f_chunk") && rng.Bool(0.15)) {
			p = alive[rng.Intn(len(alive))]
		}
		op := s.chunkOp(rng, p, r.h, r.f, r.i, flag("f_chunk"))
		op["q"] = r.peer
		op["use"] = !flag("f_chunk") || rng.Bool(0.9)
		return op
	case aAnsSnap:
		p := snapAns[rng.Intn(len(snapAns))]
		ks := s.advertisable(p)
		return simcore.Op{"a": "snap", "p": p, "k": ks[rng.Intn(len(ks))], "ans": true, "last": rng.Bool(0.5)}
	case aSpontSnap:
		p := alive[rng.Intn(len(alive))]
		if ks := s.advertisable(p); len(ks) > 0 {
			return simcore.Op{"a": "snap", "p": p, "k": ks[rng.Intn(len(ks))]}
		}
		return simcore.Op{"a": "tick", "ms": tickMs[0]}
	case aSpontChunk:
		// duplicates, late answers, answers nobody asked for - also from rejected senders
		p := alive[rng.Intn(len(alive))]
		for _, q := range alive {
			if _, rej := s.rejectedPeer[peerID(q)]; rej && rng.Bool(0.5) {
				p = q
			}
		}
		h, f := s.m.h, s.m.f
		if rng.Bool(0.1) && len(s.cat) > 0 {
			c := s.cat[rng.Intn(len(s.cat))]
			h, f = c.H, c.F
		}
		idx := uint32(rng.Intn(int(minU32(s.m.n, 12)) + 1))
		if lo, ok := s.m.lowest(); ok && rng.Bool(0.5) {
			idx = lo + uint32(rng.Intn(3))
		}
		op := s.chunkOp(rng, p, h, f, idx, true)
		op["q"] = -1
		return op
	case aAddPeer:
		return simcore.Op{"a": "addpeer", "p": dead[rng.Intn(len(dead))]}
	case aRmPeer:
		return simcore.Op{"a": "rmpeer", "p": alive[rng.Intn(len(alive))]}
	case aRPC:
		o := drawRPCMode(rng, s.cfg.Int("init_h"), int(s.tip()))
		if rng.Bool(0.4) {
			o = simcore.Op{"m": "ok"}
		}
		o["a"], o["s"] = "rpc", rng.Intn(len(s.rpc))
		return o
	case aGrow:
		return simcore.Op{"a": "grow", "n": rng.Range(1, 3), "seed": rng.Intn(1 << 30)}
	case aDrop:
		r := droppable[rng.Intn(len(droppable))]
		return simcore.Op{"a": "drop", "q": r.peer, "h": r.h, "f": r.f, "i": r.i}
	case aBadMsg:
		return simcore.Op{"a": "badmsg", "p": alive[rng.Intn(len(alive))], "v": rng.Intn(5)}
	}
	ms := tickMs[rng.Weighted([]int{6, 10, 14, 12, 10, 10, 3, 4})]
	if !wild {
		wt := []int{4, 8, 12, 12, 10, 6, 0, 0}
		for i := tickCap; i < len(wt); i++ {
			wt[i] = 0
		}
		ms = tickMs[rng.Weighted(wt)]
	}
	return simcore.Op{"a": "tick", "ms": ms}
}

func minU32(a, b uint32) uint32 {
	if a < b {
		return a
	}
	return b
}

// chunkOp draws one chunk response of peer p for (h, f, idx).
func (s *sim) chunkOp(rng *simcore.RNG, p int, h uint64, f uint32, idx uint32, faults bool) simcore.Op {
	op := simcore.Op{"a": "chunk", "p": p, "h": h, "f": f, "i": idx}
	k := s.entryFor(p, h, f)
	var data []byte
	if k >= 0 && idx < s.cat[k].N {
		data = chunkBytes(k, idx)
	} else {
		data = rng.Bytes(rng.Range(1, 20))
	}
	if faults {
		switch rng.Weighted([]int{76, 10, 6, 4, 4}) {
		case 1: // wrong bytes
			data = append([]byte{}, data...)
			data[rng.Intn(len(data))] ^= byte(rng.Range(1, 255))
			op["v"] = "flip"
		case 2:
			data = nil
			op["miss"] = true
		case 3: // for another snapshot
			if rng.Bool(0.5) {
				op["h"] = h + 1
			} else {
				op["f"] = f + 1
			}
			op["v"] = "other"
		case 4: // index beyond the snapshot
			n := uint32(1)
			if k >= 0 {
				n = s.cat[k].N
			}
			op["i"] = n + uint32(rng.Intn(3))
			op["v"] = "oob"
		}
	}
	op["d"] = simcore.HexStr(data)
	return op
}

func (s *sim) drawVerdict(rng *simcore.RNG, c *appCall) simcore.Op {
	op := simcore.Op{"a": "verdict", "c": c.kind}
	wild := s.mode == "wild"
	fv := wild && s.cfg.Bool("f_verdict")
	switch c.kind {
	case "offer":
		kind := ""
		if k := s.catIndex(keyOf(c.h, c.f, c.n, c.hash, c.meta)); k >= 0 {
			kind = s.cat[k].Kind
		}
		r := 1 // ACCEPT
		if kind == "badfmt" && rng.Bool(0.8) {
			r = 4
		} else if kind == "twin" && rng.Bool(0.3) {
			r = 3
		} else if fv {
			r = []int{1, 2, 3, 4, 5, 0, 9}[rng.Weighted([]int{62, 4, 12, 7, 9, 2, 1})]
		}
		op["r"] = r
	case "apply":
		m := &s.m
		good := m.k >= 0 && c.idx < s.cat[m.k].N && bytes.Equal(chunkBytes(m.k, c.idx), c.chunk)
		r := 1
		var refetch []int
		var rej []string
		budget := s.mode == "coop" && s.nonAccept < 6
		if fv || budget {
			wts := []int{66, 2, 12, 6, 6, 1, 1} // ACCEPT ABORT RETRY RETRY_SNAPSHOT REJECT_SNAPSHOT unknown(0) unknown(7)
			if !good {
				wts = []int{25, 2, 40, 10, 20, 1, 1}
			}
			if !wild {
				wts = []int{60, 0, 25, 10, 0, 0, 0}
			}
			r = []int{1, 2, 3, 4, 5, 0, 7}[rng.Weighted(wts)]
			if rng.Bool(0.25) || (!good && r == 3 && rng.Bool(0.7)) {
				if !good || rng.Bool(0.5) {
					refetch = append(refetch, int(c.idx))
				}
				for n := rng.Intn(3); n > 0; n-- {
					refetch = append(refetch, rng.Intn(int(minU32(m.n, 12))+2))
				}
			}
			if wild && (rng.Bool(0.12) || (!good && rng.Bool(0.5))) {
				switch rng.Intn(6) {
				case 0:
					rej = append(rej, "")
				case 1:
					rej = append(rej, peerID(rng.Intn(len(s.peers)+1)))
				default:
					rej = append(rej, c.sender)
				}
			}
		}
		if r != 1 || len(refetch) > 0 {
			s.nonAccept++
		}
		op["r"] = r
		if len(refetch) > 0 {
			op["refetch"] = refetch
		}
		if len(rej) > 0 {
			op["rej"] = rej
		}
	case "info":
		m := &s.m
		want, ok := s.canonAppHash(m.h)
		ver := 0
		if ok {
			ver = int(s.chain.Blocks[int64(m.h)+1].Header.Version.App)
		} else {
			want = []byte{1, 2, 3}
		}
		// did the application really get the genuine chunks?
		genuine := m.k >= 0 && (s.cat[m.k].Kind == "good" || s.cat[m.k].Kind == "huge")
		for i := uint32(0); genuine && i < m.n && i < 64; i++ {
			if a := m.spec[i]; a == nil || !bytes.Equal(a.data, chunkBytes(m.k, i)) {
				genuine = false
			}
		}
		pOK := 1.0
		if wild && s.cfg.Bool("f_info") {
			pOK = 0.6
		}
		if wild && !genuine {
			pOK = 0.2
		}
		ih, hash, iv := int(m.h), append([]byte{}, want...), ver
		if !rng.Bool(pOK) {
			switch rng.Intn(6) {
			case 0:
				hash[rng.Intn(len(hash))] ^= byte(rng.Range(1, 255))
			case 1:
				ih++
			case 2:
				ih--
			case 3:
				iv++
			case 4:
				hash = hash[:len(hash)-1]
			default:
				// app hash of the snapshot height itself instead of the one after it
				if b := s.chain.Blocks[int64(m.h)]; b != nil && !bytes.Equal(b.AppHash, want) {
					hash = append([]byte{}, b.AppHash...)
				} else {
					iv += 2
				}
			}
			op["pert"] = true
		}
		op["ih"], op["ihash"], op["iver"] = ih, simcore.HexStr(hash), iv
	}
	return op
}

// ---------------------------------------------------------------- apply

func (s *sim) peerOK(op simcore.Op) (int, bool) {
	p := op.Int("p")
	if !op.Has("p") || p < 0 || p >= len(s.peers) {
		return 0, false
	}
	return p, true
}

func (s *sim) Apply(op simcore.Op) bool {
	e := s.env
	if s.initFailed {
		return false
	}
	if done, _, _, _ := s.result(); done {
		return false
	}
	// No two stimuli happen at the same instant: goroutines of the reactor that went to sleep in
	// reaction to different stimuli (e.g. a fetcher left over from before a RETRY_SNAPSHOT and
	// its successor) must not wake at one instant, their order would not be owned by the simulator.
	time.Sleep(time.Millisecond + 3)
	s.settle()
	if done, _, _, _ := s.result(); done {
		return false
	}
	switch op.Kind() {
	case "addpeer":
		p, ok := s.peerOK(op)
		if !ok || s.alive[p] {
			return false
		}
		s.connect(p)
		e.Count("op.addpeer")
		s.settle()
	case "rmpeer":
		p, ok := s.peerOK(op)
		if !ok || !s.alive[p] {
			return false
		}
		s.driverFlag.Store(1)
		s.sw.StopPeerForError(s.peers[p], "simulated disconnect")
		s.driverFlag.Store(0)
		s.markDead(p)
		e.Count("fault.peer_removed")
		s.settle()
	case "snap":
		p, ok := s.peerOK(op)
		k := op.Int("k")
		if !ok || !s.alive[p] || k < 0 || k >= len(s.cat) || !s.mayAdvertise(k) {
			return false
		}
		c := s.cat[k]
		if op.Bool("ans") {
			if s.snapReqs[p] > 0 && op.Bool("last") {
				s.snapReqs[p]--
			}
		} else {
			e.Count("fault.unsolicited_snapshot")
		}
		if c.Kind != "good" {
			e.Count("fault.bogus_snapshot_" + c.Kind)
		}
		key := c.key()
		id := peerID(p)
		if _, rej := s.rejectedPeer[id]; !rej {
			s.adverts[p][key] = true
			if s.advertisers[key] == nil {
				s.advertisers[key] = map[string]bool{}
			}
			s.advertisers[key][id] = true
		} else {
			e.Count("fault.advert_from_rejected_sender")
		}
		s.everAdvertised[key] = true
		s.deliver(statesync.SnapshotChannel, s.peers[p], &ssproto.SnapshotsResponse{Height: c.H, Format: c.F, Chunks: c.N, Hash: c.Hash, Metadata: c.Meta})
		e.Count("op.snapshot_advert")
		s.settle()
	case "chunk":
		p, ok := s.peerOK(op)
		if !ok || !s.alive[p] || op.Int("h") <= 0 {
			return false
		}
		h, f, idx := uint64(op.Int64("h")), uint32(op.Int("f")), uint32(op.Int("i"))
		data := op.Hex("d")
		miss := op.Bool("miss")
		if !miss && len(data) == 0 {
			return false
		}
		if miss {
			data = nil
		}
		if q := op.Int("q"); op.Has("q") && q >= 0 {
			if op.Bool("use") {
				for i, r := range s.outstanding {
					if r.peer == q && r.h == h && r.f == f && r.i == idx {
						s.outstanding = append(s.outstanding[:i], s.outstanding[i+1:]...)
						break
					}
				}
			} else {
				e.Count("fault.chunk_duplicate")
			}
			if q != p {
				e.Count("fault.chunk_from_other_peer")
			}
		} else {
			e.Count("fault.chunk_unsolicited")
		}
		switch {
		case miss:
			e.Count("fault.chunk_missing")
		case op.Str("v") != "":
			e.Count("fault.chunk_" + op.Str("v"))
		}
		s.nDeliv++
		if !miss {
			delete(s.drops, [3]uint64{h, uint64(f), uint64(idx)})
			id := peerID(p)
			_, rej := s.rejectedPeer[id]
			if rej {
				e.Count("fault.chunk_from_rejected_sender")
			}
			a := &arrival{n: s.nDeliv, h: h, f: f, idx: idx, data: data, sender: id, senderRej: rej}
			if s.curDir != "" {
				a.epoch = s.dirEpoch
			}
			s.arrivals = append(s.arrivals, a)
			s.m.add(a)
		}
		s.deliver(statesync.ChunkChannel, s.peers[p], &ssproto.ChunkResponse{Height: h, Format: f, Index: idx, Chunk: data, Missing: miss})
		e.Count("op.chunk")
		s.settle()
	case "verdict":
		c := s.pendingCall()
		if c == nil || c.answered || !c.seen || c.kind != op.Str("c") {
			return false
		}
		v := verdict{res: int32(op.Int("r"))}
		for _, i := range op.Ints("refetch") {
			if i >= 0 {
				v.refetch = append(v.refetch, uint32(i))
			}
		}
		v.rej = op.Strs("rej")
		if c.kind == "info" {
			v.infoH, v.infoHsh, v.infoVer = op.Int64("ih"), op.Hex("ihash"), uint64(op.Int64("iver"))
			if op.Bool("pert") {
				e.Count("fault.info_perturbed")
			}
		}
		c.answered, c.res, c.refetch, c.rej, c.infoH, c.infoHsh, c.infoVer = true, v.res, v.refetch, v.rej, v.infoH, v.infoHsh, v.infoVer
		e.Count("verdict." + c.kind + "." + verdictName(c.kind, v.res))
		if len(v.refetch) > 0 {
			e.Count("verdict.refetch_list")
		}
		if len(v.rej) > 0 {
			e.Count("verdict.reject_senders_list")
		}
		s.onVerdict(c)
		s.mu.Lock()
		s.pending = nil
		s.mu.Unlock()
		s.release <- v
		s.lastProgress = s.now()
		s.settle()
		s.afterVerdict(c)
	case "drop":
		// a request that gets no answer (lost message / silent peer); fair: bounded per chunk
		h, f, idx, q := uint64(op.Int64("h")), uint32(op.Int("f")), uint32(op.Int("i")), op.Int("q")
		key := [3]uint64{h, uint64(f), uint64(idx)}
		if s.drops[key] >= s.dropBudget() {
			return false
		}
		found := false
		for i, r := range s.outstanding {
			if r.peer == q && r.h == h && r.f == f && r.i == idx {
				s.outstanding = append(s.outstanding[:i], s.outstanding[i+1:]...)
				found = true
				break
			}
		}
		if !found {
			return false
		}
		s.drops[key]++
		e.Count("fault.chunk_request_dropped")
	case "tick":
		ms := op.Int("ms")
		if ms <= 0 || ms > 200000 {
			return false
		}
		time.Sleep(time.Duration(ms)*time.Millisecond + 13)
		s.ticks++
		e.Count("op.tick")
		s.settle()
	case "rpc":
		i := op.Int("s")
		if i < 0 || i >= len(s.rpc) {
			return false
		}
		s.mu.Lock()
		s.rpc[i] = modeFromOp(op)
		s.mu.Unlock()
		e.Count("op.rpc_mode")
	case "grow":
		n := op.Int("n")
		if n <= 0 || n > 4 || s.grown >= 2 {
			return false
		}
		growChain(s.chain, simcore.NewRNG(uint64(op.Int("seed"))), n, 5, float64(s.cfg.Int("churn"))/100, nil)
		s.grown++
		e.Count("op.grow")
	case "badmsg":
		p, ok := s.peerOK(op)
		if !ok || !s.alive[p] {
			return false
		}
		var ch byte
		var m p2p.Wrapper
		h := s.m.h
		if h == 0 {
			h = 1
		}
		switch op.Int("v") {
		case 0:
			ch, m = statesync.SnapshotChannel, &ssproto.SnapshotsResponse{Height: 0, Format: 1, Chunks: 1, Hash: []byte{1}}
		case 1:
			ch, m = statesync.SnapshotChannel, &ssproto.SnapshotsResponse{Height: h, Format: 1, Chunks: 1}
		case 2:
			ch, m = statesync.SnapshotChannel, &ssproto.SnapshotsResponse{Height: h, Format: 1, Chunks: 0, Hash: []byte{1}}
		case 3:
			ch, m = statesync.ChunkChannel, &ssproto.ChunkResponse{Height: h, Format: s.m.f, Index: 0, Chunk: []byte{1}, Missing: true}
		default:
			// an empty chunk: legal per the p2p spec, refused by validateMsg after decoding
			ch, m = statesync.ChunkChannel, &ssproto.ChunkResponse{Height: h, Format: s.m.f, Index: 0, Chunk: []byte{}}
		}
		s.deliver(ch, s.peers[p], m)
		e.Count("fault.invalid_message")
		s.settle()
	default:
		return false
	}
	return true
}

func verdictName(kind string, r int32) string {
	switch kind {
	case "offer":
		if n, ok := map[int32]string{1: "accept", 2: "abort", 3: "reject", 4: "reject_format", 5: "reject_sender"}[r]; ok {
			return n
		}
	case "apply":
		if n, ok := map[int32]string{1: "accept", 2: "abort", 3: "retry", 4: "retry_snapshot", 5: "reject_snapshot"}[r]; ok {
			return n
		}
	case "info":
		return "answered"
	}
	return "unknown"
}
