// Package evsim: deterministic simulation of the real evidence pool (evidence.Pool over a
// crash-faulting database) driven by a chain that grows during the run through the real
// BlockExecutor (ValidateBlock -> CheckEvidence, ApplyBlock -> Update), fed with
// duplicate-vote and light-client-attack evidence whose validity is known by construction
// (the simulator holds every validator key) and with every single-field perturbation of it.
// A reference model (pending set, committed set, chain clock, expiry by BOTH limits) predicts
// what must / must not be admitted, accepted in a block, pending and counted. Decides C11.
//
// Violation classes (sig):
//
//	invalid-admitted / invalid-accepted          evidence that does not prove its claim entered the pool / a block
//	forged-signature-admitted / -accepted        ... where the flaw is a made-up signature of a validator the evidence accuses
//	expired-admitted / expired-accepted          expired by BOTH limits, yet admitted / accepted in a block
//	expired-pending-accepted                     ... because it was still pending (verification skipped)
//	expired-pending-accepted-stale-schedule      ... the same, for evidence that came in when the pool already held younger evidence
//	committed-became-pending / committed-accepted-again / duplicate-in-list-accepted   evidence used twice
//	committed-still-pending-after-apply-crash / evidence-in-two-blocks-after-apply-crash
//	                                             the same, for a block whose EvidencePool.Update was lost to a crash inside ApplyBlock
//	valid-rejected[-lca-amnesia|-lca-forward]    valid, fresh, new evidence refused
//	reported-votes-not-pending                   conflicting votes of a decided height did not become pending at Update
//	pending-lost / pending-dropped-by-update / pending-lost-after-restart / durable-pending-lost-in-crash / pending-lost-in-crash
//	                                             pending evidence vanished although neither committed nor expired
//	size-mismatch / size-overcount-lca-recheck   Size() differs from the number of pending items
//	unknown-pending / unexpected-pending / pending-duplicate / pending-subset / pending-exceeds-max-bytes / malformed-accepted / oversize-accepted
package evsim

import (
	"bytes"
	"crypto/sha256"
	"fmt"
	"os"
	"sort"
	"strings"
	"testing"
	"time"

	"github.com/tendermint/tendermint/crypto"
	"github.com/tendermint/tendermint/evidence"
	tmproto "github.com/tendermint/tendermint/proto/tendermint/types"
	sm "github.com/tendermint/tendermint/state"
	"github.com/tendermint/tendermint/types"

	"verif/chaingen"
	"verif/simcore"
	"verif/simdisk"
)

func TestMain(m *testing.M) {
	simcore.InitProcess()
	os.Exit(m.Run())
}

func TestSim(t *testing.T) { simcore.Main(t, harness) }

var harness = &simcore.Harness{
	Name:   "evsim",
	Props:  []string{"C11"},
	Config: genConfig,
	New:    newSim,
	MaxOps: 220,
	Real: []string{"evidence.Pool (NewPool, AddEvidence, CheckEvidence, ReportConflictingVotes, Update, PendingEvidence, Size) incl. verify.go",
		"types.DuplicateVoteEvidence / LightClientAttackEvidence incl. proto decoding + ValidateBasic (the reactor's / block decoder's path)",
		"state.BlockExecutor.ValidateBlock + ApplyBlock (calls CheckEvidence / Update exactly as consensus does), state.Store, store.BlockStore, consensus.Handshaker on restarts",
		"validator-set history with churn produced by the real executor over the recording ABCI application"},
	Stub: []string{"consensus (conflicting votes are reported by the simulator; votes are genuine), evidence reactor (gossip = direct AddEvidence of the decoded message), light client detector (attack evidence is built by the simulator from the coalition's keys)",
		"disk: simdisk.CrashDB (durable image + journal of unsynced write groups, a crash keeps a prefix of them)",
		"crash inside ApplyBlock: panic injected at the EvidencePool.Update call site (before / after the real Update), then real handshake on reopened stores"},
	Assumptions: []string{"database: a synced write makes everything written before it durable; a crash keeps the durable image plus any prefix of the unsynced write groups",
		"state and block stores are durable at the simulated crash points (their last write is synced)",
		"conflicting votes reported by consensus are genuine votes of a validator of the current or the previous height",
		"'current height / time' of the expiry rule: the last committed block for gossip and direct checks; for evidence inside a proposed block anything between the last committed block and the proposed block is tolerated",
		"reported votes that are still buffered when the pool restarts are re-reported by consensus' WAL replay (not simulated): the model forgets them"},
}

// ---------------------------------------------------------------- configuration

func genConfig(rng *simcore.RNG, env *simcore.Env) simcore.Op {
	c := simcore.Op{}
	n := rng.Range(1, 5)
	pw := make([]int, n)
	for i := range pw {
		pw[i] = rng.Range(1, 30)
	}
	c["powers"] = pw
	c["maxkeys"] = n + rng.Range(0, 2)
	c["churn"] = []int{0, 150, 400}[rng.Intn(3)]
	c["initial"] = []int{1, 1, 1, 6}[rng.Intn(4)]
	c["max_age_blocks"] = []int{1, 2, 3, 5, 9}[rng.Intn(5)]
	c["max_age_ms"] = []int{2500, 6000, 20000, 90000}[rng.Intn(4)]
	c["ev_max_bytes"] = []int{0, 0, 0, 700, 2500, 6000}[rng.Intn(6)]
	c["prelude"] = rng.Range(3, 8)
	c["pre_seed"] = rng.Intn(1 << 30)
	c["nops"] = rng.Range(15, 60)
	if env.Thorough() {
		c["nops"] = rng.Range(15, 200)
	}
	c["crash"] = rng.Bool(0.7)
	c["midcrash"] = rng.Bool(0.5)
	c["lca"] = rng.Bool(0.8)
	c["report"] = rng.Bool(0.8)
	c["pert"] = []int{200, 450, 700}[rng.Intn(3)]
	// share of light-client-attack evidence whose conflicting commit also carries valid
	// precommits FOR NIL of validators outside the coalition (left behind by failed rounds)
	c["nilp"] = []int{0, 300, 500, 800}[rng.Intn(4)]
	return c
}

// ---------------------------------------------------------------- model data

// item is one piece of generated evidence together with its ground truth.
type item struct {
	recipe simcore.Op
	ev     types.Evidence // as built in memory
	wire   types.Evidence // what a receiver decodes from the wire (nil: undecodable / fails ValidateBasic)
	hash   string         // ev.Hash(): the pool's notion of identity
	vid    string         // hash of the bytes: identity of this variant
	kind   string         // dv | lun | fwd | eqv | amn
	pert   string
	evH    int64     // height the evidence claims (Evidence.Height())
	static bool      // every condition that does not depend on later chain growth holds
	confH  int64     // lunatic shapes: height and time of the conflicting block
	confT  time.Time // "
	forged bool      // carries a signature that the alleged signer never made, and accuses that signer
	gray   bool      // ground truth is debatable: any verdict is tolerated
	who    string    // forged: the falsely accused validator
}

type crashPanic struct{}

// poolProxy is the sm.EvidencePool the BlockExecutor talks to: it forwards to the current
// pool incarnation and is the seam for crashes inside ApplyBlock.
type poolProxy struct{ s *sim }

func (p *poolProxy) PendingEvidence(m int64) ([]types.Evidence, int64) {
	return p.s.pool.PendingEvidence(m)
}
func (p *poolProxy) AddEvidence(ev types.Evidence) error { return p.s.pool.AddEvidence(ev) }
func (p *poolProxy) CheckEvidence(l types.EvidenceList) error {
	return p.s.pool.CheckEvidence(l)
}
func (p *poolProxy) Update(st sm.State, l types.EvidenceList) {
	if p.s.crashAt == "pre" {
		panic(crashPanic{})
	}
	p.s.pool.Update(st, l)
	if p.s.crashAt == "post" {
		panic(crashPanic{})
	}
}

type sim struct {
	env   *simcore.Env
	cfg   simcore.Op
	chain *chaingen.Chain
	evDB  *simdisk.CrashDB
	blkDB *simdisk.CrashDB
	stDB  *simdisk.CrashDB
	pool  *evidence.Pool
	proxy *poolProxy

	crashAt    string
	initial    int64
	maxB       int64
	maxD       time.Duration
	evMaxBytes int64
	maxKeys    int
	chainID    string
	genesis    time.Time

	items     map[string]*item // recipe -> item
	byVid     map[string]*item
	order     []*item
	pending   map[string]string // evidence hash -> vid of the variant the pool holds
	durable   map[string]bool   // evidence hash -> the pending write is known to be durable
	committed map[string]int64  // evidence hash -> height of the block that carries it
	unseen    map[string]bool   // committed by a block whose Update the pool never received (crash inside ApplyBlock)
	gone      map[string]bool   // vids of expired items that left the pool
	late      map[string]bool   // evidence hash -> when it became pending the pool had already held younger evidence (since its last start)
	maxSeenH  int64             // greatest evidence height the pool has held since its last start
	buffer    []simcore.Op      // recipes of reported vote pairs whose height is not yet flushed
	reports   []simcore.Op
	skew      int // known divergence of Size() from the number of pending items
	opsLeft   int
	restarts  int
}

func newSim(env *simcore.Env, cfg simcore.Op) simcore.Sim {
	s := &sim{env: env, cfg: cfg, items: map[string]*item{}, byVid: map[string]*item{}, pending: map[string]string{},
		durable: map[string]bool{}, committed: map[string]int64{}, unseen: map[string]bool{}, gone: map[string]bool{}, late: map[string]bool{}}
	s.proxy = &poolProxy{s: s}
	s.evDB = simdisk.NewCrashDB("evidence", nil, nil)
	s.blkDB = simdisk.NewCrashDB("blockstore", nil, nil)
	s.stDB = simdisk.NewCrashDB("state", nil, nil)
	var powers []int64
	for _, p := range cfg.Ints("powers") {
		powers = append(powers, int64(p))
	}
	if len(powers) == 0 {
		powers = []int64{10}
	}
	s.maxKeys = cfg.Int("maxkeys")
	if s.maxKeys < len(powers) {
		s.maxKeys = len(powers)
	}
	s.initial = int64(cfg.Int("initial"))
	if s.initial < 1 {
		s.initial = 1
	}
	s.maxB = int64(cfg.Int("max_age_blocks"))
	if s.maxB < 1 {
		s.maxB = 1
	}
	s.maxD = time.Duration(cfg.Int("max_age_ms")) * time.Millisecond
	if s.maxD <= 0 {
		s.maxD = time.Second
	}
	s.chain = chaingen.New(chaingen.Opts{InitialHeight: s.initial, Powers: powers, BlockDB: s.blkDB, StateDB: s.stDB,
		EvidenceAge: s.maxB, EvidenceDuration: s.maxD, EvidenceMaxBytes: int64(cfg.Int("ev_max_bytes")), EvPool: s.proxy})
	for i := 0; i < s.maxKeys; i++ {
		s.chain.KnowKey(i)
	}
	s.chainID = s.chain.State.ChainID
	s.genesis = s.chain.GenDoc.GenesisTime
	s.evMaxBytes = s.chain.State.ConsensusParams.Evidence.MaxBytes
	pool, err := evidence.NewPool(s.evDB, s.chain.StateStore, s.chain.BlockStore)
	if err != nil {
		panic(err)
	}
	s.pool = pool
	// prelude: a few blocks with churn so that there is history to misbehave in
	r := simcore.NewRNG(uint64(cfg.Int("pre_seed")) + 1)
	for i := 0; i < cfg.Int("prelude"); i++ {
		op := s.drawBlock(r, false)
		op["sel"] = "none"
		if _, err := s.chain.TryNext(s.blockSpec(op)); err != nil {
			panic(err)
		}
	}
	s.opsLeft = cfg.Int("nops")
	return s
}

// ---------------------------------------------------------------- chain helpers

func (s *sim) H() int64 { return s.chain.Height() }

// valsAt returns the validator set that signs blocks of height h (for heights beyond the
// tip: the set that will sign the next block).
func (s *sim) valsAt(h int64) *types.ValidatorSet {
	k := h - 1
	if k > s.H() {
		k = s.H()
	}
	if k < s.initial-1 {
		k = s.initial - 1
	}
	return s.chain.States[k].Validators
}

func (s *sim) timeAt(h int64) time.Time { return s.chain.Blocks[h].Time }

func detBytes(n int, parts ...any) []byte {
	out := []byte{}
	for i := 0; len(out) < n; i++ {
		x := sha256.Sum256([]byte(fmt.Sprint(append([]any{i}, parts...)...)))
		out = append(out, x[:]...)
	}
	return out[:n]
}

func mkBlockID(seed int) types.BlockID {
	if seed == 0 {
		return types.BlockID{} // nil vote
	}
	return types.BlockID{Hash: detBytes(32, "bid", seed), PartSetHeader: types.PartSetHeader{Total: uint32(1 + seed%3), Hash: detBytes(32, "psh", seed)}}
}

func signVote(key crypto.PrivKey, chainID string, v *types.Vote) {
	sig, err := key.Sign(types.VoteSignBytes(chainID, v.ToProto()))
	if err != nil {
		panic(err)
	}
	v.Signature = sig
}

func flip(b []byte) []byte {
	c := append([]byte{}, b...)
	c[len(c)/2] ^= 0x20
	return c
}

func sortByPower(vs []*types.Validator) {
	sort.SliceStable(vs, func(i, j int) bool {
		if vs[i].VotingPower != vs[j].VotingPower {
			return vs[i].VotingPower > vs[j].VotingPower
		}
		return bytes.Compare(vs[i].Address, vs[j].Address) < 0
	})
}

func roundTripEv(ev types.Evidence) (types.Evidence, error) {
	pb, err := types.EvidenceToProto(ev)
	if err != nil {
		return nil, err
	}
	bz, err := pb.Marshal()
	if err != nil {
		return nil, err
	}
	var pb2 tmproto.Evidence
	if err := pb2.Unmarshal(bz); err != nil {
		return nil, err
	}
	out, err := types.EvidenceFromProto(&pb2)
	if err != nil {
		return nil, err // (the decoder returns the partially built object next to the error)
	}
	return out, nil
}

func roundTripBlock(b *types.Block) (*types.Block, error) {
	pb, err := b.ToProto()
	if err != nil {
		return nil, err
	}
	bz, err := pb.Marshal()
	if err != nil {
		return nil, err
	}
	var pb2 tmproto.Block
	if err := pb2.Unmarshal(bz); err != nil {
		return nil, err
	}
	return types.BlockFromProto(&pb2)
}

func vidOf(ev types.Evidence) string {
	x := sha256.Sum256(ev.Bytes())
	return string(x[:])
}

func listBytes(evs []types.Evidence) int64 {
	var l tmproto.EvidenceList
	for _, ev := range evs {
		pb, err := types.EvidenceToProto(ev)
		if err != nil {
			return 1 << 40
		}
		l.Evidence = append(l.Evidence, *pb)
	}
	return int64(l.Size())
}

func short(err error) string {
	if err == nil {
		return "<nil>"
	}
	m := err.Error()
	if len(m) > 240 {
		m = m[:240] + "..."
	}
	return m
}

func hx(s string) string {
	if len(s) > 4 {
		s = s[:4]
	}
	return fmt.Sprintf("%x", s)
}

// ---------------------------------------------------------------- evidence construction

var dvPerts = []string{"nilbid", "same_bid", "diff_height", "diff_round", "diff_type", "two_vals", "not_in_set", "bad_sig_a", "bad_sig_b",
	"wrong_total", "wrong_power", "cur_power", "wrong_time", "time_cur", "wrong_order", "future", "wrong_chain"}

var lcaPerts = map[string][]string{
	"lun": {"coal_low", "conf_low", "byz_missing", "byz_extra", "byz_order", "byz_power", "wrong_common", "hdr_invalid", "wrong_time", "wrong_total", "bad_sig", "wrong_chain", "commit_blockid"},
	"fwd": {"coal_low", "conf_low", "byz_missing", "wrong_time", "wrong_total", "bad_sig", "fwd_late"},
	"eqv": {"conf_low", "byz_missing", "byz_extra", "byz_order", "byz_power", "wrong_common", "identical", "hdr_invalid", "wrong_time", "wrong_total", "bad_sig", "wrong_chain", "commit_blockid"},
	"amn": {"conf_low", "byz_extra", "wrong_common", "wrong_time", "wrong_total", "bad_sig"},
}

// votesOf builds the two votes a dv recipe describes (before ordering / perturbation of the
// evidence fields). ok=false when the recipe cannot be built on the current chain.
func (s *sim) votesOf(r simcore.Op) (v1, v2 *types.Vote, sigOK bool, ok bool) {
	h := r.Int64("h")
	p := r.Str("p")
	x := r.Int("x")
	vals := s.valsAt(h)
	n := vals.Size()
	vi := r.Int("vi") % n
	val := vals.Validators[vi]
	key := s.chain.Keys[string(val.Address)]
	if key == nil {
		return nil, nil, false, false
	}
	round := int32(r.Int("r") % 4)
	typ := tmproto.PrevoteType
	if r.Int("t")%2 == 0 {
		typ = tmproto.PrecommitType
	}
	sa, sb := r.Int("sa")%7, r.Int("sb")%7
	if p == "same_bid" {
		sb = sa
	} else if sa == sb {
		return nil, nil, false, false
	}
	if p == "nilbid" {
		sa = 0
		if sb == 0 {
			sb = 1
		}
	}
	chain := s.chainID
	sigOK = true
	if p == "wrong_chain" {
		chain += "-x"
		sigOK = false
	}
	ts := func(hh int64, seed int) time.Time {
		return s.genesis.Add(time.Duration(hh)*time.Second + time.Duration(seed+1)*time.Millisecond).UTC()
	}
	hB, rB, tB := h, round, typ
	keyB, addrB, idxB := key, val.Address, int32(vi)
	switch p {
	case "diff_height":
		hB = h + 1
		if x%2 == 1 && h > s.initial {
			hB = h - 1
		}
	case "diff_round":
		rB = round + 1 + int32(x%2)
	case "diff_type":
		if typ == tmproto.PrevoteType {
			tB = tmproto.PrecommitType
		} else {
			tB = tmproto.PrevoteType
		}
	case "two_vals":
		if n < 2 {
			return nil, nil, false, false
		}
		j := (vi + 1 + x%(n-1)) % n
		o := vals.Validators[j]
		keyB, addrB, idxB = s.chain.Keys[string(o.Address)], o.Address, int32(j)
		if keyB == nil {
			return nil, nil, false, false
		}
	case "not_in_set":
		// a key that does not sign at h; prefer one that is a validator now
		cur := s.chain.State.Validators
		pick := -1
		for k := 0; k < s.maxKeys+1; k++ {
			kk := (k + x) % (s.maxKeys + 1)
			a := chaingen.Key(kk).PubKey().Address()
			if vals.HasAddress(a) {
				continue
			}
			if pick < 0 || cur.HasAddress(a) {
				pick = kk
				if cur.HasAddress(a) {
					break
				}
			}
		}
		if pick < 0 {
			return nil, nil, false, false
		}
		key = chaingen.Key(pick)
		keyB = key
		addrB = key.PubKey().Address()
		idxB = int32(vi)
		val = types.NewValidator(key.PubKey(), 1)
	}
	v1 = &types.Vote{Type: typ, Height: h, Round: round, BlockID: mkBlockID(sa), Timestamp: ts(h, sa), ValidatorAddress: val.Address, ValidatorIndex: int32(vi)}
	v2 = &types.Vote{Type: tB, Height: hB, Round: rB, BlockID: mkBlockID(sb), Timestamp: ts(hB, sb), ValidatorAddress: addrB, ValidatorIndex: idxB}
	signVote(key, chain, v1)
	signVote(keyB, chain, v2)
	return v1, v2, sigOK, true
}

func (s *sim) buildDV(r simcore.Op) *item {
	H := s.H()
	h := r.Int64("h")
	p := r.Str("p")
	x := r.Int("x")
	if h < s.initial || h > H+4 {
		return nil
	}
	if (p == "future") != (h > H) {
		return nil
	}
	v1, v2, sigOK, ok := s.votesOf(r)
	if !ok {
		return nil
	}
	a, b := v1, v2
	if strings.Compare(v1.BlockID.Key(), v2.BlockID.Key()) >= 0 {
		a, b = v2, v1
	}
	if p == "wrong_order" {
		a, b = b, a
	}
	evH := a.Height
	hist := s.valsAt(evH)
	_, hv := hist.GetByAddress(a.ValidatorAddress)
	total := hist.TotalVotingPower()
	var power int64
	if hv != nil {
		power = hv.VotingPower
	}
	var T time.Time
	decided := evH <= H && evH >= s.initial
	if decided {
		T = s.timeAt(evH)
	} else {
		// never equal to a block time (those are whole milliseconds)
		T = s.timeAt(H).Add(time.Duration(evH-H)*time.Second + 500*time.Microsecond)
	}
	ev := &types.DuplicateVoteEvidence{VoteA: a, VoteB: b, TotalVotingPower: total, ValidatorPower: power, Timestamp: T}
	switch p {
	case "wrong_total":
		ev.TotalVotingPower += int64(1 + x)
	case "wrong_power":
		ev.ValidatorPower += int64(1 + x)
		if x%2 == 1 && ev.ValidatorPower > int64(2+2*x) {
			ev.ValidatorPower -= int64(2 + 2*x)
		}
	case "cur_power":
		cur := s.chain.State.Validators
		ev.TotalVotingPower = cur.TotalVotingPower()
		if _, cv := cur.GetByAddress(a.ValidatorAddress); cv != nil {
			ev.ValidatorPower = cv.VotingPower
		} else {
			ev.ValidatorPower = power + 1
		}
	case "wrong_time":
		ev.Timestamp = T.Add(time.Duration(1+x) * time.Millisecond)
		if x%2 == 1 {
			ev.Timestamp = T.Add(-time.Duration(x) * time.Second)
		}
	case "time_cur":
		ev.Timestamp = s.timeAt(H)
	case "bad_sig_a":
		a.Signature = flip(a.Signature)
		sigOK = false
	case "bad_sig_b":
		b.Signature = flip(b.Signature)
		sigOK = false
	case "not_in_set":
		ev.ValidatorPower = int64(1 + x)
	}
	// reference verification (spec/consensus/evidence.md "DuplicateVoteEvidence" + the ABCI fields)
	valid := decided && hv != nil && sigOK &&
		bytes.Equal(a.ValidatorAddress, b.ValidatorAddress) &&
		a.Height == b.Height && a.Round == b.Round && a.Type == b.Type &&
		!a.BlockID.Equals(b.BlockID) &&
		strings.Compare(a.BlockID.Key(), b.BlockID.Key()) < 0 &&
		ev.TotalVotingPower == total && ev.ValidatorPower == power && ev.Timestamp.Equal(T)
	return &item{ev: ev, kind: "dv", pert: p, evH: evH, static: valid}
}

func (s *sim) buildLCA(r simcore.Op) *item {
	H := s.H()
	sh := r.Str("sh")
	p := r.Str("p")
	x := r.Int("x")
	c := r.Int64("c")
	// the canonical commit of the common height (and of the conflicting height) is only fixed once
	// the next block exists
	if c < s.initial || c > H-1 {
		return nil
	}
	common := s.valsAt(c)
	totalC := common.TotalVotingPower()
	Tc := s.timeAt(c)
	canon := s.chain.Blocks[c].Header
	rng := simcore.NewRNG(uint64(r.Int64("cs"))*2654435761 + 17)
	signChain := s.chainID
	wellFormed, sigOK := true, true
	hdr := canon // copy
	var conf *types.ValidatorSet
	signer := map[string]bool{}
	nilVoter := map[string]bool{}
	nl := r.Int("nl") != 0
	var round int32
	ch := c
	var signerPower, confTotal, coalPower int64
	switch sh {
	case "lun", "fwd":
		if sh == "lun" {
			ch = c + 1 + int64(r.Int("d")%4)
			if ch > H-1 {
				ch = H - 1
			}
			if ch <= c {
				return nil
			}
		} else {
			ch = H + 1 + int64(r.Int("d")%3)
		}
		perm := rng.Perm(common.Size())
		var coal []*types.Validator
		for _, i := range perm {
			v := common.Validators[i]
			if p == "coal_low" {
				if (coalPower+v.VotingPower)*3 > totalC {
					continue
				}
			} else if coalPower*3 > totalC && !rng.Bool(0.3) {
				break
			}
			coal = append(coal, v)
			coalPower += v.VotingPower
		}
		if p != "coal_low" && coalPower*3 <= totalC {
			return nil
		}
		var vals []*types.Validator
		for _, v := range coal {
			vals = append(vals, types.NewValidator(v.PubKey, v.VotingPower))
			signer[string(v.Address)] = true
			signerPower += v.VotingPower
		}
		if len(coal) == 0 || rng.Bool(0.3) {
			// a signer outside the common set (a fresh key the attackers made up)
			k := chaingen.Key(100 + r.Int("cs")%5)
			pw := int64(1 + rng.Intn(20))
			vals = append(vals, types.NewValidator(k.PubKey(), pw))
			signer[string(k.PubKey().Address())] = true
			signerPower += pw
		}
		extraPower := int64(0)
		switch {
		case p == "conf_low":
			extraPower = signerPower * 2
			vals = append(vals, types.NewValidator(chaingen.Key(200).PubKey(), extraPower))
		case signerPower >= 4 && rng.Bool(0.3):
			extraPower = signerPower / 4
			vals = append(vals, types.NewValidator(chaingen.Key(200).PubKey(), extraPower))
		}
		if nl {
			// members of the conflicting set that did NOT sign the block: their slots carry valid
			// precommits for nil (the made-up member, and validators of the common set outside
			// the coalition). They prove nothing and never count.
			if extraPower > 0 {
				nilVoter[string(chaingen.Key(200).PubKey().Address())] = true
			}
			memberPower := signerPower + extraPower
			for _, i := range perm {
				v := common.Validators[i]
				if signer[string(v.Address)] {
					continue
				}
				if p != "coal_low" && p != "conf_low" && signerPower*3 <= 2*(memberPower+v.VotingPower) {
					continue // would take the +2/3 of the conflicting set away from the signers
				}
				vals = append(vals, types.NewValidator(v.PubKey, v.VotingPower))
				nilVoter[string(v.Address)] = true
				memberPower += v.VotingPower
			}
		}
		conf = types.NewValidatorSet(vals)
		confTotal = conf.TotalVotingPower()
		hdr.Height = ch
		switch {
		case sh == "lun":
			hdr.Time = s.timeAt(ch).Add(time.Duration(x%3) * time.Millisecond)
		case p == "fwd_late":
			hdr.Time = s.timeAt(H).Add(time.Hour)
		default:
			hdr.Time = Tc.Add(time.Millisecond)
		}
		hdr.LastBlockID = mkBlockID(1 + r.Int("cs")%5)
		hdr.AppHash = detBytes(32, "app", r.Int("cs"), ch)
		hdr.DataHash = detBytes(32, "data", r.Int("cs"), ch)
		hdr.ValidatorsHash = conf.Hash()
		hdr.NextValidatorsHash = conf.Hash()
		hdr.ProposerAddress = conf.Validators[0].Address
		round = int32(rng.Intn(3))
	case "eqv", "amn":
		conf = common.Copy()
		confTotal = totalC
		if p != "identical" {
			hdr.DataHash = detBytes(32, "data", r.Int("cs"), c, sh)
		}
		round = s.chain.Commits[c].Round
		if sh == "amn" {
			round += 1 + int32(x%2)
		}
		perm := rng.Perm(conf.Size())
		for _, i := range perm {
			v := conf.Validators[i]
			if p == "conf_low" {
				if (signerPower+v.VotingPower)*3 > 2*confTotal {
					continue
				}
			} else if signerPower*3 > 2*confTotal && !rng.Bool(0.3) {
				break
			}
			signer[string(v.Address)] = true
			signerPower += v.VotingPower
		}
		if len(signer) == 0 {
			return nil
		}
		if p != "conf_low" && signerPower*3 <= 2*confTotal {
			return nil
		}
		if nl {
			// validators that did not sign the conflicting block precommitted nil in that round.
			// Same round as the canonical commit (equivocation): only those that are absent from
			// the canonical commit, anybody else would really have voted twice.
			cc := s.chain.Commits[c]
			for i, v := range conf.Validators {
				if !signer[string(v.Address)] && (sh == "amn" || cc.Signatures[i].Absent()) {
					nilVoter[string(v.Address)] = true
				}
			}
		}
	default:
		return nil
	}
	conf.TotalVotingPower()
	switch p {
	case "hdr_invalid":
		hdr.ProposerAddress = hdr.ProposerAddress[:10]
		wellFormed = false
	case "wrong_chain":
		hdr.ChainID = s.chainID + "-x"
		signChain = hdr.ChainID
		sigOK = false
	}
	var commit *types.Commit
	var forgedAddr []byte
	if p == "identical" {
		commit = s.chain.Commits[c]
		signer = map[string]bool{}
		signerPower = 0
		for i, cs := range commit.Signatures {
			if !cs.Absent() {
				signer[string(conf.Validators[i].Address)] = true
				signerPower += conf.Validators[i].VotingPower
			}
		}
	} else {
		bid := types.BlockID{Hash: hdr.Hash(), PartSetHeader: types.PartSetHeader{Total: 1, Hash: detBytes(32, "cpsh", r.Int("cs"), ch)}}
		commit = &types.Commit{Height: ch, Round: round, BlockID: bid}
		last := -1
		nilSlots := 0
		for i, v := range conf.Validators {
			flag := types.BlockIDFlagCommit
			switch {
			case signer[string(v.Address)]:
			case nilVoter[string(v.Address)]:
				flag = types.BlockIDFlagNil
			default:
				commit.Signatures = append(commit.Signatures, types.NewCommitSigAbsent())
				continue
			}
			k := s.chain.Keys[string(v.Address)]
			if k == nil {
				for _, j := range []int{100, 101, 102, 103, 104, 200} {
					if bytes.Equal(chaingen.Key(j).PubKey().Address(), v.Address) {
						k = chaingen.Key(j)
					}
				}
			}
			if k == nil {
				return nil
			}
			// (for a nil slot the signed vote is the precommit for the zero block id of this height / round)
			commit.Signatures = append(commit.Signatures, types.CommitSig{BlockIDFlag: flag, ValidatorAddress: v.Address,
				Timestamp: hdr.Time.Add(time.Second + time.Duration(i)*time.Millisecond)})
			sig, err := k.Sign(commit.VoteSignBytes(signChain, int32(i)))
			if err != nil {
				panic(err)
			}
			commit.Signatures[i].Signature = sig
			if flag == types.BlockIDFlagNil {
				nilSlots++
				continue
			}
			last = i
		}
		if nilSlots > 0 {
			s.env.Count("gen.lca_with_nil_slots")
			if p == "coal_low" || p == "conf_low" {
				s.env.Count("gen.lca_low_with_nil_slots")
			}
		}
		if p == "bad_sig" {
			// the alleged signer never made this signature
			at := last
			if x%2 == 1 {
				for i := range commit.Signatures {
					if commit.Signatures[i].ForBlock() {
						at = i
						break
					}
				}
			}
			commit.Signatures[at].Signature = detBytes(64, "bogus", r.Int("cs"), at)
			forgedAddr = conf.Validators[at].Address
			signerPower -= conf.Validators[at].VotingPower // only genuine signatures prove anything
			if _, cv := common.GetByAddress(forgedAddr); cv != nil && (sh == "lun" || sh == "fwd") {
				coalPower -= cv.VotingPower
			}
		}
		if p == "commit_blockid" {
			commit.BlockID.Hash = detBytes(32, "otherblock", r.Int("cs"))
			wellFormed = false
		}
	}
	// the validators the evidence accuses (spec: lunatic = signers that are in the common set;
	// equivocation = signers of both commits of the same round; amnesia = nobody can be named)
	var byz []*types.Validator
	switch sh {
	case "lun", "fwd":
		for _, v := range conf.Validators {
			if signer[string(v.Address)] {
				if _, cv := common.GetByAddress(v.Address); cv != nil {
					byz = append(byz, cv)
				}
			}
		}
	case "eqv":
		cc := s.chain.Commits[c]
		for i, v := range conf.Validators {
			if signer[string(v.Address)] && !cc.Signatures[i].Absent() {
				_, cv := conf.GetByAddress(v.Address)
				byz = append(byz, cv)
			}
		}
	}
	sortByPower(byz)
	byzOK := true
	claimed := append([]*types.Validator{}, byz...)
	switch p {
	case "byz_missing":
		if len(claimed) == 0 {
			return nil
		}
		k := x % len(claimed)
		claimed = append(claimed[:k:k], claimed[k+1:]...)
		byzOK = false
	case "byz_extra":
		var extra *types.Validator
		for _, v := range common.Validators {
			in := false
			for _, b := range claimed {
				in = in || bytes.Equal(b.Address, v.Address)
			}
			if !in {
				extra = v.Copy()
				break
			}
		}
		if extra == nil {
			extra = types.NewValidator(chaingen.Key(300).PubKey(), 3)
		}
		claimed = append(claimed, extra)
		sortByPower(claimed)
		byzOK = false
	case "byz_order":
		if len(claimed) < 2 {
			return nil
		}
		k := x % (len(claimed) - 1)
		claimed[k], claimed[k+1] = claimed[k+1], claimed[k]
		byzOK = false
	case "byz_power":
		if len(claimed) == 0 {
			return nil
		}
		k := x % len(claimed)
		cp := claimed[k].Copy()
		cp.VotingPower += int64(1 + x)
		claimed[k] = cp
		byzOK = false
	}
	if len(claimed) == 0 {
		claimed = nil // what a JSON / in-memory submission carries; the wire form is an empty list
	}
	ev := &types.LightClientAttackEvidence{
		ConflictingBlock:    &types.LightBlock{SignedHeader: &types.SignedHeader{Header: &hdr, Commit: commit}, ValidatorSet: conf},
		CommonHeight:        c,
		ByzantineValidators: claimed,
		TotalVotingPower:    totalC,
		Timestamp:           Tc,
	}
	fieldsOK := true
	switch p {
	case "wrong_common":
		nc := c - 1
		if x%2 == 1 && c+1 <= ch {
			nc = c + 1
		}
		if nc < s.initial || nc > ch || nc == c {
			return nil
		}
		ev.CommonHeight = nc
		fieldsOK = false
	case "wrong_time":
		ev.Timestamp = Tc.Add(time.Duration(1+x) * time.Millisecond)
		if x%2 == 1 {
			ev.Timestamp = s.timeAt(H)
		}
		fieldsOK = false
	case "wrong_total":
		ev.TotalVotingPower += int64(1 + x)
		fieldsOK = false
	}
	// reference verification (spec/consensus/evidence.md "LightClientAttackEvidence" + ABCI fields)
	valid := wellFormed && sigOK && byzOK && fieldsOK &&
		signerPower*3 > 2*confTotal &&
		!bytes.Equal(hdr.Hash(), s.chain.Blocks[c].Header.Hash())
	if sh == "lun" || sh == "fwd" {
		valid = valid && coalPower*3 > totalC
	}
	if p == "identical" {
		valid = false
	}
	// a signature its alleged signer never made: the evidence is false testimony when it accuses
	// that signer; when it does not (amnesia names nobody, a made-up key is not in the common
	// set) and the genuine signatures alone still carry the proof, either verdict is tolerated
	accusesForged := false
	for _, b := range claimed {
		accusesForged = accusesForged || (forgedAddr != nil && bytes.Equal(b.Address, forgedAddr))
	}
	gray := false
	if forgedAddr != nil {
		if accusesForged {
			valid = false
		} else if valid {
			gray = true
		}
	}
	who := ""
	if accusesForged {
		who = fmt.Sprintf("validator %X", forgedAddr[:6])
	}
	return &item{ev: ev, kind: sh, pert: p, evH: ev.CommonHeight, static: valid, gray: gray, confH: ch, confT: hdr.Time, forged: accusesForged, who: who}
}

// getItem returns the evidence a recipe describes, building it on first use.
func (s *sim) getItem(r simcore.Op) *item {
	if r == nil {
		return nil
	}
	key := r.String()
	if it, ok := s.items[key]; ok {
		return it
	}
	var it *item
	switch r.Str("k") {
	case "dv":
		it = s.buildDV(r)
	case "lca":
		if !s.cfg.Bool("lca") {
			return nil
		}
		it = s.buildLCA(r)
	}
	if it == nil {
		return nil
	}
	it.recipe = r
	it.hash = string(it.ev.Hash())
	it.wire, _ = roundTripEv(it.ev)
	it.vid = vidOf(it.ev)
	if prev, ok := s.byVid[it.vid]; ok {
		// another recipe that yields the very same bytes
		s.items[key] = prev
		return prev
	}
	s.items[key] = it
	s.byVid[it.vid] = it
	if it.wire != nil {
		s.byVid[vidOf(it.wire)] = it
	}
	s.order = append(s.order, it)
	s.env.Count("gen." + it.kind + "." + it.pert)
	return it
}

const (
	invalid  = 0
	valid    = 1
	dontcare = 2
)

// validity is the ground truth at the current chain height.
func (s *sim) validity(it *item) int {
	if !it.static {
		return invalid
	}
	if it.gray {
		return dontcare
	}
	if it.kind == "lun" || it.kind == "fwd" {
		H := s.H()
		switch {
		case it.confH > H:
			// forward lunatic attack: proven only if the conflicting block violates monotonic time
			if it.confT.After(s.timeAt(H)) {
				return invalid
			}
			return valid
		case it.confH == H:
			// the canonical commit of the conflicting height is not fixed yet
			return dontcare
		}
	}
	return valid
}

// expiredAt: evidence is expired only when BOTH limits are exceeded.
func (s *sim) expiredAt(it *item, h int64, t time.Time) bool {
	if it.evH > s.H() || it.evH < s.initial {
		return false
	}
	return h-it.evH > s.maxB && t.Sub(s.timeAt(it.evH)) > s.maxD
}

func (s *sim) expiredNow(it *item) bool { return s.expiredAt(it, s.H(), s.timeAt(s.H())) }

// ---------------------------------------------------------------- expectations / reconciliation

type expect struct {
	must    map[string]string // evidence hash -> sig to report when it is not pending
	weak    map[string]bool   // evidence hash -> pending write was not durable at the crash
	allowed map[string]bool   // vid -> may be pending
}

func (s *sim) baseExpect(lostSig string) *expect {
	x := &expect{must: map[string]string{}, weak: map[string]bool{}, allowed: map[string]bool{}}
	for hash, vid := range s.pending {
		x.allowed[vid] = true
		it := s.byVid[vid]
		if it == nil || s.expiredNow(it) {
			continue
		}
		if s.committed[hash] != 0 {
			continue // only there because of a known finding; nothing to demand
		}
		x.must[hash] = lostSig
	}
	return x
}

func (x *expect) allow(it *item) {
	x.allowed[it.vid] = true
	if it.wire != nil {
		x.allowed[vidOf(it.wire)] = true
	}
}

// reconcile compares the pool's pending list and size with the expectation and adopts the
// observed state as the model's pending set.
func (s *sim) reconcile(x *expect, ctx string) {
	e := s.env
	obs, _ := s.pool.PendingEvidence(-1)
	np := map[string]string{}
	for _, ev := range obs {
		hash := string(ev.Hash())
		vid := vidOf(ev)
		if _, dup := np[hash]; dup {
			e.Fail("C11", "pending-duplicate", "%s: evidence %s is listed twice by PendingEvidence", ctx, hx(hash))
		}
		it := s.byVid[vid]
		if !x.allowed[vid] && !(it != nil && x.allowed[it.vid]) {
			switch {
			case it == nil:
				e.Fail("C11", "unknown-pending", "%s: pool lists evidence %s that nobody submitted in this form", ctx, hx(hash))
			case s.committed[hash] != 0 && s.unseen[hash]:
				e.Fail("C11", "committed-still-pending-after-apply-crash", "%s: %s evidence %s was committed in block %d (node crashed inside ApplyBlock before EvidencePool.Update; the handshake replayed the block without the pool) but is pending", ctx, it.kind, hx(hash), s.committed[hash])
			case s.committed[hash] != 0:
				e.Fail("C11", "committed-became-pending", "%s: %s evidence %s was committed in block %d but is pending", ctx, it.kind, hx(hash), s.committed[hash])
			case s.validity(it) == invalid && it.forged:
				e.Fail("C11", "forged-signature-admitted", "%s: %s evidence %s carries a made-up signature of %s and lists that validator in ByzantineValidators (the commit verification stops at the quorum and never looks at it), but is pending", ctx, it.kind, hx(hash), it.who)
			case s.validity(it) == invalid:
				e.Fail("C11", "invalid-admitted", "%s: invalid %s evidence %s (perturbation %s) is pending", ctx, it.kind, hx(hash), it.pert)
			case s.expiredNow(it):
				e.Fail("C11", "expired-admitted", "%s: %s evidence %s of height %d entered the pool although expired by both limits (height %d, max age %d blocks / %v)", ctx, it.kind, hx(hash), it.evH, s.H(), s.maxB, s.maxD)
			default:
				e.Fail("C11", "unexpected-pending", "%s: %s evidence %s (perturbation %s) is pending although the operation should not have added it", ctx, it.kind, hx(hash), it.pert)
			}
		}
		if it != nil {
			vid = it.vid
		}
		np[hash] = vid
	}
	var hs []string
	for h := range x.must {
		hs = append(hs, h)
	}
	sort.Strings(hs)
	for _, h := range hs {
		if _, ok := np[h]; !ok {
			it := s.byVid[s.pending[h]]
			d := ""
			if it != nil {
				d = fmt.Sprintf("%s/%s of height %d", it.kind, it.pert, it.evH)
			}
			e.Fail("C11", x.must[h], "%s: evidence %s (%s) should be pending but is not (chain height %d)", ctx, hx(h), d, s.H())
		}
	}
	hs = hs[:0]
	for h := range x.weak {
		hs = append(hs, h)
	}
	sort.Strings(hs)
	for _, h := range hs {
		if _, ok := np[h]; !ok {
			e.Count("fault.pending_lost_unsynced")
			e.Fail("C11", "pending-lost-in-crash", "%s: pending evidence %s was acknowledged (AddEvidence / Update returned) but is gone after a crash that lost unsynced writes of the evidence database", ctx, hx(h))
		}
	}
	// expired items that left the pool
	for h, vid := range s.pending {
		if _, ok := np[h]; !ok {
			s.gone[vid] = true
			delete(s.durable, h)
			delete(s.late, h)
		}
	}
	// late arrivals: evidence older than something the pool already held when it came in
	seenH := s.maxSeenH
	for h, vid := range np {
		it := s.byVid[vid]
		if it == nil {
			continue
		}
		if _, old := s.late[h]; !old {
			s.late[h] = seenH > it.evH
		}
		if it.evH > s.maxSeenH {
			s.maxSeenH = it.evH
		}
	}
	s.pending = np
	// the reported size equals the number of pending items
	size := int(s.pool.Size())
	if size != len(obs)+s.skew {
		e.Fail("C11", "size-mismatch", "%s: Size()=%d but PendingEvidence(-1) lists %d items (known skew %d)", ctx, size, len(obs), s.skew)
		s.skew = size - len(obs)
	}
	if s.evDB.Unsynced() == 0 {
		for h := range s.pending {
			s.durable[h] = true
		}
	}
	e.Logf("pend n=%d size=%d H=%d", len(obs), size, s.H())
}

// reconcileSize handles the one place where a size divergence has a specific known cause.
func (s *sim) noteRecheck(n int, ctx string) {
	if n == 0 {
		return
	}
	obs, _ := s.pool.PendingEvidence(-1)
	size := int(s.pool.Size())
	d := size - (len(obs) + s.skew)
	if d > 0 && d <= n {
		s.env.Count("probe.lca_recheck_overcount")
		s.env.Fail("C11", "size-overcount-lca-recheck", "%s: CheckEvidence re-verified %d light-client-attack evidence that was already pending and counted it again: Size()=%d, pending items=%d (previous skew %d)", ctx, n, size, len(obs), s.skew)
		s.skew += d
	}
}

// ---------------------------------------------------------------- list prediction

type lentry struct {
	it   *item
	ev   types.Evidence
	hash string
}

type pcause struct {
	cause string
	it    *item
}

type prediction struct {
	reject, accept bool
	cause          string // first reason to reject (in list order)
	it             *item
	causes         []pcause // every reason to reject, one per offending item
	rechecks       int      // pending LCA items that a successful check verifies again
}

// predict decides whether a list of evidence must be rejected / must be accepted as the
// evidence of one block. (hiH, hiT) is the most advanced clock the expiry rule may refer to.
func (s *sim) predict(list []lentry, hiH int64, hiT time.Time, inBlock bool) prediction {
	var p prediction
	H := s.H()
	T := s.timeAt(H)
	seen := map[string]bool{}
	lcaSeen := map[string]bool{}
	gray := false
	var evs []types.Evidence
	for _, e := range list {
		cause := ""
		switch {
		case e.it == nil:
			cause = "unknown"
		case seen[e.hash]:
			cause = "dup"
		case s.committed[e.hash] != 0:
			cause = "committed"
		case e.it.wire == nil:
			cause = "undecodable"
		default:
			switch s.validity(e.it) {
			case invalid:
				cause = "invalid"
			case dontcare:
				gray = true
			}
			if cause == "" {
				if s.expiredAt(e.it, H, T) {
					cause = "expired"
				} else if s.expiredAt(e.it, hiH, hiT) {
					gray = true
				}
			}
		}
		seen[e.hash] = true
		if cause != "" {
			if p.cause == "" {
				p.cause, p.it = cause, e.it
			}
			p.causes = append(p.causes, pcause{cause, e.it})
		}
		if e.it != nil && e.it.kind != "dv" {
			if s.pending[e.hash] != "" || lcaSeen[e.hash] {
				p.rechecks++
			}
			lcaSeen[e.hash] = true
		}
		evs = append(evs, e.ev)
	}
	if p.cause == "" && inBlock && listBytes(evs) > s.evMaxBytes {
		p.cause = "oversize"
		p.causes = append(p.causes, pcause{"oversize", nil})
	}
	p.reject = p.cause != ""
	p.accept = p.cause == "" && !gray
	return p
}

func (s *sim) acceptedSig(p pcause) (string, string) {
	d := ""
	if p.it != nil {
		d = fmt.Sprintf("%s evidence %s (perturbation %s, height %d)", p.it.kind, hx(p.it.hash), p.it.pert, p.it.evH)
	}
	if p.it == nil && p.cause != "oversize" {
		return "unknown-accepted", "the list contains evidence in a form nobody submitted"
	}
	switch p.cause {
	case "dup":
		return "duplicate-in-list-accepted", d + " appears twice in the list"
	case "committed":
		if s.unseen[p.it.hash] {
			return "evidence-in-two-blocks-after-apply-crash", d + fmt.Sprintf(" was committed in block %d, whose EvidencePool.Update was skipped by a crash inside ApplyBlock + handshake replay", s.committed[p.it.hash])
		}
		return "committed-accepted-again", d + fmt.Sprintf(" was committed in block %d", s.committed[p.it.hash])
	case "invalid":
		if p.it.forged {
			return "forged-signature-accepted", d + " carries a made-up signature of " + p.it.who + " and lists that validator in ByzantineValidators (the commit verification stops at the quorum and never looks at it)"
		}
		return "invalid-accepted", d + " does not prove what it claims"
	case "expired":
		if s.pending[p.it.hash] != "" && s.late[p.it.hash] {
			return "expired-pending-accepted-stale-schedule", d + fmt.Sprintf(" is expired by both limits (chain height %d, max age %d blocks / %v) but still pending in the pool: it came in when the pool already held younger evidence, and the pool expects nothing to expire before the oldest evidence it saw at its last pruning; pending duplicate-vote evidence is not verified again", s.H(), s.maxB, s.maxD)
		}
		if s.pending[p.it.hash] != "" {
			return "expired-pending-accepted", d + fmt.Sprintf(" is expired by both limits (chain height %d, max age %d blocks / %v) but still pending in the pool, which skips verification of pending duplicate-vote evidence", s.H(), s.maxB, s.maxD)
		}
		return "expired-accepted", d + fmt.Sprintf(" is expired by both limits (chain height %d, max age %d blocks / %v)", s.H(), s.maxB, s.maxD)
	case "undecodable":
		return "malformed-accepted", d + " fails ValidateBasic"
	case "oversize":
		return "oversize-accepted", "evidence exceeds evidence.max_bytes"
	}
	return "unknown-accepted", "the list contains evidence in a form nobody submitted"
}

// rejectedSig names the class of a refusal of valid evidence by the item that was refused.
func (s *sim) rejectedSig(it *item) string {
	switch {
	case it == nil:
		return "valid-rejected"
	case it.kind == "amn":
		return "valid-rejected-lca-amnesia"
	case (it.kind == "fwd" || it.kind == "lun") && it.confH > s.H():
		return "valid-rejected-lca-forward"
	}
	return "valid-rejected"
}

// blameRejected finds out which items of a wrongly rejected list the pool refuses: every item
// is checked on its own (each is valid, fresh and new, so whatever that adds to the pool is
// allowed) and every refused one is reported under the class of THAT item. It returns the
// number of light-client-attack items it made the pool verify once more.
func (s *sim) blameRejected(list []lentry, listErr error, ctx string) int {
	e := s.env
	blamed, lca := 0, 0
	for i, le := range list {
		ev := le.ev
		if le.it != nil {
			ev = le.it.wire
			if le.it.kind != "dv" {
				lca++
			}
		}
		err := s.pool.CheckEvidence(types.EvidenceList{ev})
		if err == nil {
			continue
		}
		blamed++
		d := "evidence in a form nobody submitted"
		if le.it != nil {
			d = fmt.Sprintf("%s evidence %s of height %d", le.it.kind, hx(le.hash), le.it.evH)
		}
		e.Count("probe.blamed_item")
		e.Fail("C11", s.rejectedSig(le.it), "%s rejected a list of %d valid, unexpired, uncommitted, distinct evidence (chain height %d); item #%d, %s, is refused on its own: %s", ctx, len(list), s.H(), i, d, short(err))
	}
	if blamed == 0 {
		e.Fail("C11", "valid-rejected", "%s rejected a list of %d valid, unexpired, uncommitted, distinct evidence although every item is accepted on its own: %s", ctx, len(list), short(listErr))
	}
	return lca
}

// ---------------------------------------------------------------- op generation

func (s *sim) drawDV(rng *simcore.RNG) simcore.Op {
	H := s.H()
	span := int(H - s.initial + 1)
	near := int(s.maxB) + 3
	if near > span {
		near = span
	}
	h := H - int64(rng.Intn(near))
	if rng.Bool(0.15) {
		h = s.initial + int64(rng.Intn(span))
	}
	sa := rng.Intn(6)
	r := simcore.Op{"k": "dv", "dh": H - h, "vi": rng.Intn(8), "r": rng.Intn(3), "t": 1 + rng.Intn(2), "sa": sa, "sb": (sa + 1 + rng.Intn(5)) % 6, "p": "none", "x": rng.Intn(5)}
	if rng.Intn(1000) < s.cfg.Int("pert") {
		p := dvPerts[rng.Intn(len(dvPerts))]
		r["p"] = p
		if p == "future" {
			r["dh"] = -1 - rng.Intn(3)
		}
	}
	return r
}

func (s *sim) drawLCA(rng *simcore.RNG) simcore.Op {
	H := s.H()
	span := int(H - 1 - s.initial + 1)
	if span < 1 {
		return s.drawDV(rng)
	}
	near := int(s.maxB) + 3
	if near > span {
		near = span
	}
	c := H - 1 - int64(rng.Intn(near))
	sh := []string{"lun", "fwd", "eqv", "amn"}[rng.Weighted([]int{35, 12, 33, 20})]
	r := simcore.Op{"k": "lca", "sh": sh, "dc": H - 1 - c, "d": rng.Intn(4), "cs": rng.Intn(1000), "p": "none", "x": rng.Intn(5)}
	if rng.Intn(1000) < s.cfg.Int("pert") {
		ps := lcaPerts[sh]
		r["p"] = ps[rng.Intn(len(ps))]
	}
	if rng.Intn(1000) < s.cfg.Int("nilp") {
		r["nl"] = 1
		// nil slots matter most where the for-block power alone is insufficient
		if r["p"] != "none" && rng.Bool(0.5) {
			r["p"] = "conf_low"
			if (sh == "lun" || sh == "fwd") && rng.Bool(0.5) {
				r["p"] = "coal_low"
			}
		}
	}
	return r
}

// drawEv draws a recipe: fresh, or one used before (re-submission of pending / committed /
// rejected evidence), or the pair of a reported conflict.
func (s *sim) drawEv(rng *simcore.RNG) simcore.Op {
	if len(s.order) > 0 && rng.Bool(0.25) {
		// "ref": the n-th evidence generated so far; "cm": the n-th that is committed by now
		return simcore.Op{"ref": rng.Intn(len(s.order)), "cm": rng.Bool(0.4)}
	}
	if len(s.reports) > 0 && rng.Bool(0.08) {
		return simcore.Op{"rep": rng.Intn(len(s.reports))}
	}
	if s.cfg.Bool("lca") && rng.Bool(0.45) {
		return s.drawLCA(rng)
	}
	return s.drawDV(rng)
}

// resolve turns the recipe of an op (heights relative to the tip, or a reference to evidence
// generated earlier) into the absolute recipe that identifies the evidence.
func (s *sim) resolve(r simcore.Op) simcore.Op {
	if r == nil {
		return nil
	}
	switch {
	case r.Has("ref"):
		if len(s.order) == 0 {
			return nil
		}
		if r.Bool("cm") {
			var cm []*item
			for _, it := range s.order {
				if s.committed[it.hash] != 0 {
					cm = append(cm, it)
				}
			}
			if len(cm) > 0 {
				return cm[r.Int("ref")%len(cm)].recipe
			}
		}
		return s.order[r.Int("ref")%len(s.order)].recipe
	case r.Has("rep"):
		if len(s.reports) == 0 {
			return nil
		}
		return s.reports[r.Int("rep")%len(s.reports)]
	}
	out := simcore.Op{}
	for k, v := range r {
		out[k] = v
	}
	switch r.Str("k") {
	case "dv":
		out["h"] = s.H() - r.Int64("dh")
		delete(out, "dh")
	case "lca":
		out["c"] = s.H() - 1 - r.Int64("dc")
		delete(out, "dc")
	default:
		return nil
	}
	return out
}

func (s *sim) drawBlock(rng *simcore.RNG, faults bool) simcore.Op {
	op := simcore.Op{"a": "blk", "ntx": rng.Intn(3), "abs": rng.Intn(1 << 20)}
	op["delay"] = []int{1000, 1000, 1000, 3000, 10000, 60000, 300000}[rng.Weighted([]int{30, 20, 10, 15, 12, 8, 5})]
	if rng.Bool(0.15) {
		op["round"] = rng.Range(1, 2)
	}
	if rng.Intn(1000) < s.cfg.Int("churn") {
		op["vk"] = rng.Intn(s.maxKeys)
		op["vp"] = 0
		if rng.Bool(0.75) {
			op["vp"] = rng.Range(1, 30)
		}
	}
	switch rng.Weighted([]int{45, 20, 35}) {
	case 0:
		op["sel"] = "all"
	case 1:
		op["sel"] = "some"
		op["idx"] = []int{rng.Intn(8), rng.Intn(8), rng.Intn(8)}[:rng.Range(1, 3)]
	default:
		op["sel"] = "none"
	}
	if !faults {
		return op
	}
	if rng.Bool(0.3) {
		n := rng.Range(1, 2)
		var ex []simcore.Op
		for i := 0; i < n; i++ {
			ex = append(ex, s.drawEv(rng))
		}
		op["extra"] = ex
		op["at"] = rng.Intn(4)
	}
	if rng.Bool(0.06) {
		op["dup"] = rng.Intn(8)
	}
	if s.cfg.Bool("midcrash") && s.restarts < 3 && rng.Bool(0.08) {
		op["crash"] = []string{"pre", "post"}[rng.Intn(2)]
		op["keep"] = []int{0, 1000, rng.Intn(1001)}[rng.Intn(3)]
	}
	return op
}

func (s *sim) Next(rng *simcore.RNG) simcore.Op {
	if s.opsLeft <= 0 {
		return nil
	}
	s.opsLeft--
	w := []int{30, 10, 0, 30, 0, 6}
	if s.cfg.Bool("report") {
		w[2] = 9
	}
	if s.restarts < 3 {
		w[4] = 6
	}
	switch rng.Weighted(w) {
	case 0:
		return simcore.Op{"a": "add", "ev": s.drawEv(rng), "w": !rng.Bool(0.15)}
	case 1:
		n := rng.Range(1, 4)
		var l []simcore.Op
		for i := 0; i < n; i++ {
			if i > 0 && rng.Bool(0.15) {
				l = append(l, l[rng.Intn(len(l))]) // duplicate inside the list
				continue
			}
			l = append(l, s.drawEv(rng))
		}
		op := simcore.Op{"a": "check", "evs": l}
		if rng.Bool(0.3) {
			op["pend"] = rng.Intn(8) // also an item the pool already holds
		}
		return op
	case 2:
		r := s.drawDV(rng)
		r["p"] = "none"
		r["dh"] = -1
		if rng.Bool(0.25) {
			r["dh"] = 0 // a precommit of the previous height that arrives late
		}
		return simcore.Op{"a": "report", "ev": r, "swap": rng.Bool(0.5)}
	case 3:
		return s.drawBlock(rng, true)
	case 4:
		op := simcore.Op{"a": "restart", "mode": "clean"}
		if s.cfg.Bool("crash") && rng.Bool(0.7) {
			op["mode"] = []string{"evcrash", "fullcrash"}[rng.Intn(2)]
			op["keep"] = []int{0, 1000, rng.Intn(1001), rng.Intn(1001)}[rng.Intn(4)]
		}
		return op
	default:
		return simcore.Op{"a": "query", "max": []int{-1, 0, 300, 600, 1200, 3000, 100000}[rng.Intn(7)]}
	}
}

// ---------------------------------------------------------------- apply

func (s *sim) blockSpec(op simcore.Op) chaingen.BlockSpec {
	var sp chaingen.BlockSpec
	h := s.H() + 1
	for t := 0; t < op.Int("ntx"); t++ {
		sp.Txs = append(sp.Txs, []byte(fmt.Sprintf("k%d-%d=v%d", h, t, op.Int("abs")%997)))
	}
	if op.Has("vk") {
		sp.Txs = append(sp.Txs, chaingen.ValTx(op.Int("vk")%s.maxKeys, int64(op.Int("vp"))))
	}
	sp.Round = int32(op.Int("round") % 3)
	sp.VoteDelay = time.Duration(op.Int("delay")) * time.Millisecond
	if sp.VoteDelay <= 0 {
		sp.VoteDelay = time.Second
	}
	r := simcore.NewRNG(uint64(op.Int("abs")) + 99)
	vals := s.chain.State.Validators
	total := vals.TotalVotingPower()
	var gone int64
	sp.Absent = map[int]bool{}
	for i, v := range vals.Validators {
		if r.Bool(0.15) && (gone+v.VotingPower)*3 < total {
			sp.Absent[i] = true
			gone += v.VotingPower
		}
	}
	return sp
}

func (s *sim) entryOfPool(ev types.Evidence) lentry {
	return lentry{it: s.byVid[vidOf(ev)], ev: ev, hash: string(ev.Hash())}
}

func (s *sim) Apply(op simcore.Op) bool {
	e := s.env
	switch op.Kind() {
	case "add":
		it := s.getItem(s.resolve(op.Sub("ev")))
		if it == nil {
			return false
		}
		s.applyAdd(it, op.Bool("w"))
	case "check":
		var list []lentry
		for _, r := range op.Subs("evs") {
			it := s.getItem(s.resolve(r))
			if it == nil {
				continue
			}
			list = append(list, lentry{it: it, ev: it.ev, hash: it.hash})
		}
		if op.Has("pend") {
			if pe, _ := s.pool.PendingEvidence(-1); len(pe) > 0 {
				list = append(list, s.entryOfPool(pe[op.Int("pend")%len(pe)]))
			}
		}
		if len(list) == 0 {
			return false
		}
		s.applyCheck(list)
	case "report":
		r := s.resolve(op.Sub("ev"))
		if r == nil || r.Str("k") != "dv" || r.Str("p") != "none" {
			return false
		}
		h := r.Int64("h")
		if h != s.H() && h != s.H()+1 {
			return false
		}
		v1, v2, _, ok := s.votesOf(r)
		if !ok {
			return false
		}
		if op.Bool("swap") {
			v1, v2 = v2, v1
		}
		s.pool.ReportConflictingVotes(v1, v2)
		s.buffer = append(s.buffer, r)
		s.reports = append(s.reports, r)
		e.Count("op.report")
		// nothing may become pending before the height is decided and the pool hears about it
		s.reconcile(s.baseExpect("pending-lost"), "report")
	case "blk":
		s.applyBlock(op)
	case "restart":
		mode := op.Str("mode")
		if mode != "clean" && mode != "evcrash" && mode != "fullcrash" {
			return false
		}
		s.restart(mode, op.Int("keep"), "restart("+mode+")")
	case "query":
		s.applyQuery(int64(op.Int("max")))
	default:
		return false
	}
	e.State(op.Kind(), len(s.pending), len(s.committed)%5, len(s.buffer) > 0, s.skew != 0, s.restarts)
	return true
}

// applyAdd: evidence arrives from a gossiping peer (wire: decoded from the message, which
// includes ValidateBasic) or through the RPC (in-memory object, ValidateBasic by the handler).
func (s *sim) applyAdd(it *item, wire bool) {
	e := s.env
	e.Count("op.add")
	ev := it.ev
	if wire {
		if it.wire == nil {
			// the reactor drops the message at decoding; nothing reaches the pool
			e.Count("probe.add_undecodable")
			if s.validity(it) == valid {
				e.Fail("C11", "valid-rejected-at-decode", "valid %s evidence %s cannot be decoded from its own encoding", it.kind, hx(it.hash))
			}
			s.reconcile(s.baseExpect("pending-lost"), "add(undecodable)")
			return
		}
		ev = it.wire
	} else if err := ev.ValidateBasic(); err != nil {
		e.Count("probe.add_undecodable")
		s.reconcile(s.baseExpect("pending-lost"), "add(malformed)")
		return
	}
	x := s.baseExpect("pending-lost")
	v := s.validity(it)
	expired := s.expiredNow(it)
	_, isPending := s.pending[it.hash]
	isCommitted := s.committed[it.hash] != 0
	want := "ignore"
	switch {
	case isPending:
		e.Count("probe.add_already_pending")
	case isCommitted:
		e.Count("probe.add_already_committed")
	case v == valid && !expired:
		want = "admit"
		x.must[it.hash] = "valid-rejected"
		if it.kind == "amn" && wire {
			x.must[it.hash] = "valid-rejected-lca-amnesia"
		}
		if it.confH > s.H() {
			x.must[it.hash] = "valid-rejected-lca-forward"
		}
		x.allow(it)
	case v == dontcare && !expired:
		want = "may"
		x.allow(it)
	case v == invalid:
		e.Count("probe.add_invalid")
	default:
		e.Count("probe.add_expired")
	}
	err := s.pool.AddEvidence(ev)
	e.Logf("add %s/%s h=%d want=%s err=%v", it.kind, it.pert, it.evH, want, err != nil)
	if want == "admit" {
		if err != nil {
			sig := x.must[it.hash]
			delete(x.must, it.hash)
			s.failRejected(sig, it, err) // returns only for a listed known finding
		} else {
			e.Count("probe.add_admitted")
			s.pending[it.hash] = it.vid
		}
	}
	s.reconcile(x, "add")
}

func (s *sim) failRejected(sig string, it *item, err error) {
	s.env.Fail("C11", sig, "valid, unexpired, uncommitted %s evidence %s of height %d (chain height %d) was rejected: %s", it.kind, hx(it.hash), it.evH, s.H(), short(err))
}

// applyCheck: CheckEvidence on a list as it would arrive inside a block (every item decoded).
func (s *sim) applyCheck(list []lentry) {
	e := s.env
	e.Count("op.check")
	H := s.H()
	p := s.predict(list, H, s.timeAt(H), false)
	var evs types.EvidenceList
	decodable := true
	for _, le := range list {
		if le.it != nil && le.it.wire == nil {
			decodable = false
		}
	}
	var err error
	if !decodable {
		err = fmt.Errorf("block with this evidence cannot be decoded")
		e.Count("probe.check_undecodable")
	} else {
		for _, le := range list {
			if le.it != nil {
				evs = append(evs, le.it.wire)
			} else {
				evs = append(evs, le.ev)
			}
		}
		err = s.pool.CheckEvidence(evs)
	}
	e.Logf("check n=%d cause=%s err=%v", len(list), p.cause, err != nil)
	s.afterCheck(list, p, err, "check")
	x := s.baseExpect("pending-lost")
	for _, le := range list {
		if le.it != nil && s.validity(le.it) != invalid && !s.expiredNow(le.it) && s.committed[le.hash] == 0 {
			x.allow(le.it)
		}
	}
	s.reconcile(x, "check")
}

// afterCheck compares the verdict on a list with the prediction.
func (s *sim) afterCheck(list []lentry, p prediction, err error, ctx string) {
	e := s.env
	switch {
	case err == nil && p.reject:
		// one report per offending item, so that a listed known class never covers for another
		for _, c := range p.causes {
			sig, d := s.acceptedSig(c)
			e.Count("probe.accept_violation." + c.cause)
			e.Fail("C11", sig, "%s accepted a list of %d evidence that must be rejected: %s", ctx, len(list), d)
		}
	case err != nil && p.accept:
		s.noteRecheck(p.rechecks, ctx)
		p.rechecks = s.blameRejected(list, err, ctx)
	case err == nil:
		e.Count("probe.list_accepted")
	default:
		e.Count("probe.list_rejected." + p.cause)
	}
	s.noteRecheck(p.rechecks, ctx)
}

func (s *sim) applyBlock(op simcore.Op) {
	e := s.env
	e.Count("op.block")
	sp := s.blockSpec(op)
	var list []lentry
	pend, _ := s.pool.PendingEvidence(s.evMaxBytes)
	switch op.Str("sel") {
	case "all":
		for _, ev := range pend {
			list = append(list, s.entryOfPool(ev))
		}
	case "some":
		used := map[int]bool{}
		for _, i := range op.Ints("idx") {
			if len(pend) == 0 {
				break
			}
			k := i % len(pend)
			if !used[k] {
				used[k] = true
				list = append(list, s.entryOfPool(pend[k]))
			}
		}
	}
	fromPool := len(list)
	var extra []lentry
	for _, r := range op.Subs("extra") {
		if it := s.getItem(s.resolve(r)); it != nil {
			extra = append(extra, lentry{it: it, ev: it.ev, hash: it.hash})
		}
	}
	if len(extra) > 0 {
		at := 0
		if len(list) > 0 {
			at = op.Int("at") % (len(list) + 1)
		}
		list = append(list[:at:at], append(extra, list[at:]...)...)
	}
	if op.Has("dup") && len(list) > 0 {
		list = append(list, list[op.Int("dup")%len(list)])
	}
	for _, le := range list {
		sp.Evidence = append(sp.Evidence, le.ev)
	}
	if fromPool > 0 && len(extra) == 0 && !op.Has("dup") {
		e.Count("probe.block_of_pending")
	}
	var p prediction
	predicted := false
	hook := func(b *types.Block) (*types.Block, error) {
		p = s.predict(list, b.Height, b.Time, true)
		predicted = true
		return roundTripBlock(b) // what every node but the proposer validates
	}
	crash := ""
	if s.cfg.Bool("midcrash") {
		crash = op.Str("crash")
	}
	s.crashAt = crash
	crashed := false
	var err error
	func() {
		defer func() {
			if r := recover(); r != nil {
				if _, ok := r.(crashPanic); !ok {
					panic(r)
				}
				crashed = true
			}
		}()
		_, err = s.chain.TryNextWith(sp, hook)
	}()
	s.crashAt = ""
	if !predicted {
		panic("block was not built")
	}
	accepted := err == nil
	e.Logf("blk H=%d n=%d cause=%s accepted=%v crashed=%v", s.H(), len(list), p.cause, accepted, crashed)
	s.afterCheck(list, p, err, "block validation")
	if !accepted {
		e.Count("probe.block_rejected")
		x := s.baseExpect("pending-lost")
		for _, le := range list {
			if le.it != nil && s.validity(le.it) != invalid && !s.expiredNow(le.it) && s.committed[le.hash] == 0 {
				x.allow(le.it)
			}
		}
		s.reconcile(x, "block(rejected)")
		return
	}
	if len(list) > 0 {
		e.Count("probe.block_with_evidence")
	}
	if crashed {
		// the block is decided and stored; the node dies inside ApplyBlock
		e.Count("fault.crash_in_apply_" + crash)
		newH := s.H() + 1 // chain object not advanced; the block store is
		for _, le := range list {
			s.committed[le.hash] = newH
			if crash == "pre" {
				s.unseen[le.hash] = true
			}
		}
		s.dropCommittedFromPending(list)
		s.restartAfterApplyCrash(crash, op.Int("keep"))
		return
	}
	// model of Update: evidence of the block is committed, buffered conflicts of decided
	// heights become pending, expired evidence may leave
	newH := s.H()
	for _, le := range list {
		s.committed[le.hash] = newH
	}
	s.dropCommittedFromPending(list)
	x := s.baseExpect("pending-dropped-by-update")
	s.flushBuffer(x)
	s.reconcile(x, "block")
}

func (s *sim) dropCommittedFromPending(list []lentry) {
	for _, le := range list {
		delete(s.pending, le.hash)
		delete(s.durable, le.hash)
	}
}

// flushBuffer: conflicting votes seen by consensus become pending evidence once their height
// is decided (and the pool was told: Update).
func (s *sim) flushBuffer(x *expect) {
	H := s.H()
	var keep []simcore.Op
	for _, r := range s.buffer {
		if r.Int64("h") > H {
			keep = append(keep, r)
			continue
		}
		it := s.getItem(r)
		if it == nil {
			panic("reported votes cannot be turned into evidence")
		}
		s.env.Count("probe.report_flushed")
		x.allow(it)
		if s.committed[it.hash] == 0 && !s.expiredNow(it) {
			if _, ok := s.pending[it.hash]; !ok {
				s.pending[it.hash] = it.vid
			}
			x.must[it.hash] = "reported-votes-not-pending"
		}
	}
	s.buffer = keep
}

func (s *sim) applyQuery(max int64) {
	e := s.env
	e.Count("op.query")
	s.reconcile(s.baseExpect("pending-lost"), "query")
	got, size := s.pool.PendingEvidence(max)
	if max >= 0 {
		if n := listBytes(got); n > max {
			e.Fail("C11", "pending-exceeds-max-bytes", "PendingEvidence(%d) returned %d items of %d bytes", max, len(got), n)
		}
		if len(got) > 0 {
			e.Count("probe.query_capped")
		}
	} else if len(got) != len(s.pending) {
		e.Fail("C11", "pending-unstable", "two consecutive PendingEvidence(-1) calls returned %d and %d items", len(s.pending), len(got))
	}
	seen := map[string]bool{}
	for _, ev := range got {
		h := string(ev.Hash())
		if _, ok := s.pending[h]; !ok || seen[h] {
			e.Fail("C11", "pending-subset", "PendingEvidence(%d) returned evidence %s that PendingEvidence(-1) does not list (or twice)", max, hx(h))
		}
		seen[h] = true
	}
	e.Logf("query max=%d n=%d size=%d", max, len(got), size)
}

// ---------------------------------------------------------------- restarts

func (s *sim) reopenPool(ctx string) {
	pool, err := evidence.NewPool(s.evDB, s.chain.StateStore, s.chain.BlockStore)
	if err != nil {
		s.env.Fail("C11", "restart-failed", "%s: evidence pool cannot be reopened: %v", ctx, err)
		panic(err)
	}
	s.pool = pool
	s.skew = 0
	s.late, s.maxSeenH = map[string]bool{}, 0 // a starting pool looks at everything it holds
	if len(s.buffer) > 0 {
		s.env.Count("probe.buffer_forgotten_at_restart")
	}
	s.buffer = nil
	s.restarts++
}

func (s *sim) crashImage(db *simdisk.CrashDB, permille int) (*simdisk.CrashDB, bool) {
	n := db.Unsynced()
	keep := n
	if permille >= 0 {
		keep = n * permille / 1000
	}
	return simdisk.NewCrashDB(db.Name, db.Image(keep), nil), keep < n
}

func (s *sim) restart(mode string, permille int, ctx string) {
	e := s.env
	e.Count("op.restart_" + mode)
	lost := false
	switch mode {
	case "clean":
		s.evDB, _ = s.crashImage(s.evDB, -1)
	default:
		e.Count("fault.crash")
		s.evDB, lost = s.crashImage(s.evDB, permille)
		if lost {
			e.Count("fault.crash_lost_writes")
		}
	}
	if mode == "fullcrash" {
		// the whole node dies right after ApplyBlock returned: every store is reopened from its image
		if s.blkDB.Unsynced()+s.stDB.Unsynced() > 0 {
			e.Count("probe.unsynced_state_or_block_writes")
		}
		s.blkDB, _ = s.crashImage(s.blkDB, permille)
		s.stDB, _ = s.crashImage(s.stDB, permille)
		s.chain.App.Crash()
		s.chain = chaingen.Reopen(s.chain, s.blkDB, s.stDB, s.proxy)
	}
	x := s.restartExpect(mode != "clean", lost)
	s.reopenPool(ctx)
	s.reconcile(x, ctx)
}

// restartExpect: pending evidence survives restarts until committed or expired.
func (s *sim) restartExpect(crash, lost bool) *expect {
	sig := "pending-lost-after-restart"
	if crash {
		sig = "durable-pending-lost-in-crash"
	}
	x := s.baseExpect(sig)
	if lost {
		for h := range x.must {
			if !s.durable[h] {
				delete(x.must, h)
				x.weak[h] = true
			}
		}
		// deletions of expired evidence may be lost as well
		for vid := range s.gone {
			if it := s.byVid[vid]; it != nil && s.committed[it.hash] == 0 {
				x.allowed[vid] = true
			}
		}
	}
	return x
}

func (s *sim) restartAfterApplyCrash(crash string, permille int) {
	e := s.env
	lost := false
	s.evDB, lost = s.crashImage(s.evDB, permille)
	if lost {
		e.Count("fault.crash_lost_writes")
	}
	s.blkDB, _ = s.crashImage(s.blkDB, permille)
	s.stDB, _ = s.crashImage(s.stDB, permille)
	s.chain.App.Crash()
	s.chain = chaingen.Reopen(s.chain, s.blkDB, s.stDB, s.proxy)
	ctx := "restart after crash inside ApplyBlock (" + crash + " Update)"
	x := s.restartExpect(true, lost)
	if crash == "post" {
		// Update ran: buffered conflicts of decided heights were turned into evidence
		s.flushBufferWeak(x, lost)
	}
	s.reopenPool(ctx)
	s.reconcile(x, ctx)
}

// flushBufferWeak: as flushBuffer, for an Update whose unsynced writes may have been lost.
func (s *sim) flushBufferWeak(x *expect, lost bool) {
	H := s.H()
	for _, r := range s.buffer {
		if r.Int64("h") > H {
			continue
		}
		it := s.getItem(r)
		if it == nil {
			continue
		}
		x.allow(it)
		if s.committed[it.hash] == 0 && !s.expiredNow(it) {
			if _, ok := s.pending[it.hash]; !ok {
				s.pending[it.hash] = it.vid
				if lost {
					x.weak[it.hash] = true
				} else {
					x.must[it.hash] = "reported-votes-not-pending"
				}
			}
		}
	}
	s.buffer = nil
}

// ---------------------------------------------------------------- end of run

func (s *sim) Finish() {
	e := s.env
	s.restart("clean", -1, "final restart")
	// committed evidence is never acceptable again, however it is presented
	n := 0
	for _, it := range s.order {
		if s.committed[it.hash] == 0 || it.wire == nil || n >= 8 {
			continue
		}
		n++
		_ = s.pool.AddEvidence(it.wire)
		s.reconcile(s.baseExpect("pending-lost"), "final add of committed evidence")
		list := []lentry{{it: it, ev: it.ev, hash: it.hash}}
		p := s.predict(list, s.H(), s.timeAt(s.H()), false)
		err := s.pool.CheckEvidence(types.EvidenceList{it.wire})
		s.afterCheck(list, p, err, "final check of committed evidence")
		e.Count("probe.final_committed_probe")
	}
	e.Add("stat.committed", int64(len(s.committed)))
	e.Add("stat.height", s.H()-s.initial+1)
}

func (s *sim) Close() {
	if s.chain != nil {
		s.chain.Stop()
	}
}
