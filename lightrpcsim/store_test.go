package lightrpcsim

// Merkle-provable application state for the recording application (honest-node side, not
// under test) and the harness' own RFC-6962 tree arithmetic (oracle side).

import (
	"bytes"
	"crypto/sha256"
	"encoding/binary"
	"sort"

	abci "github.com/tendermint/tendermint/abci/types"
	"github.com/tendermint/tendermint/crypto/merkle"
	tmcrypto "github.com/tendermint/tendermint/proto/tendermint/crypto"
)

const queryPath = "/store/kv/key"

// ---------------------------------------------------------------- oracle-side tree arithmetic (spec/core/encoding.md, RFC 6962)

func sha(b ...[]byte) []byte {
	h := sha256.New()
	for _, x := range b {
		h.Write(x)
	}
	return h.Sum(nil)
}

func myLeaf(item []byte) []byte  { return sha([]byte{0}, item) }
func myInner(l, r []byte) []byte { return sha([]byte{1}, l, r) }
func mySplit(n int64) int64 {
	k := int64(1)
	for k*2 < n {
		k *= 2
	}
	return k
}

// myRoot is the Merkle root of the items (leaves are hashed with the 0x00 prefix).
func myRoot(items [][]byte) []byte {
	switch len(items) {
	case 0:
		return sha()
	case 1:
		return myLeaf(items[0])
	}
	k := mySplit(int64(len(items)))
	return myInner(myRoot(items[:k]), myRoot(items[k:]))
}

// myRootFromPath recomputes the root from an audit path; nil when the path does not have
// the shape of a path for (index,total).
func myRootFromPath(index, total int64, leafHash []byte, aunts [][]byte) []byte {
	if total <= 0 || index < 0 || index >= total {
		return nil
	}
	if total == 1 {
		if len(aunts) != 0 {
			return nil
		}
		return leafHash
	}
	if len(aunts) == 0 {
		return nil
	}
	n := len(aunts)
	k := mySplit(total)
	if index < k {
		l := myRootFromPath(index, k, leafHash, aunts[:n-1])
		if l == nil {
			return nil
		}
		return myInner(l, aunts[n-1])
	}
	r := myRootFromPath(index-k, total-k, leafHash, aunts[:n-1])
	if r == nil {
		return nil
	}
	return myInner(aunts[n-1], r)
}

// ---------------------------------------------------------------- application store

func encBytes(b []byte) []byte {
	var buf [binary.MaxVarintLen64]byte
	n := binary.PutUvarint(buf[:], uint64(len(b)))
	return append(append([]byte{}, buf[:n]...), b...)
}

// kvItem is the simple-map leaf (key, sha256(value)) that merkle.ValueOp expects.
func kvItem(key, value []byte) []byte {
	return append(encBytes(key), encBytes(sha(value))...)
}

// snap is the committed application state of one height: root = simple map
// {"kv": root of the simple map over the key/values, "meta": hash chain}.
type snap struct {
	h      int64
	kv     map[string]string
	keys   []string
	chain  []byte
	kvRoot []byte
	root   []byte
}

func buildSnap(h int64, kv map[string]string, chain []byte) *snap {
	sn := &snap{h: h, kv: map[string]string{}, chain: append([]byte{}, chain...)}
	for k, v := range kv {
		sn.kv[k] = v
		sn.keys = append(sn.keys, k)
	}
	sort.Strings(sn.keys)
	sn.kvRoot, _ = merkle.ProofsFromByteSlices(sn.items())
	sn.root, _ = merkle.ProofsFromByteSlices(sn.topItems())
	return sn
}

func (sn *snap) items() [][]byte {
	items := make([][]byte, len(sn.keys))
	for i, k := range sn.keys {
		items[i] = kvItem([]byte(k), []byte(sn.kv[k]))
	}
	return items
}

func (sn *snap) topItems() [][]byte {
	return [][]byte{kvItem([]byte("kv"), sn.kvRoot), kvItem([]byte("meta"), sn.chain)}
}

// proofOps returns the two-level value proof of key (nil when absent).
func (sn *snap) proofOps(key string) *tmcrypto.ProofOps {
	i := sort.SearchStrings(sn.keys, key)
	if i >= len(sn.keys) || sn.keys[i] != key {
		return nil
	}
	_, kp := merkle.ProofsFromByteSlices(sn.items())
	_, tp := merkle.ProofsFromByteSlices(sn.topItems())
	return &tmcrypto.ProofOps{Ops: []tmcrypto.ProofOp{
		merkle.NewValueOp([]byte(key), kp[i]).ProofOp(),
		merkle.NewValueOp([]byte("kv"), tp[0]).ProofOp(),
	}}
}

type mstore struct {
	snaps map[int64]*snap
}

func newMstore() *mstore { return &mstore{snaps: map[int64]*snap{}} }

// appHash is RecApp.AppHashFn: memoises the snapshot of every committed height.
func (m *mstore) appHash(h int64, kv map[string]string, chain []byte) []byte {
	if sn, ok := m.snaps[h]; ok && bytes.Equal(sn.chain, chain) {
		return sn.root
	}
	sn := buildSnap(h, kv, chain)
	m.snaps[h] = sn
	return sn.root
}

// query is RecApp.QueryFn.
func (m *mstore) query(req abci.RequestQuery, committed int64) abci.ResponseQuery {
	h := req.Height
	if h == 0 {
		h = committed
	}
	sn := m.snaps[h]
	if sn == nil || h < 0 {
		return abci.ResponseQuery{Code: 7, Log: "no state for that height", Height: h}
	}
	if req.Path != queryPath {
		return abci.ResponseQuery{Code: 8, Log: "unknown path", Height: h}
	}
	res := abci.ResponseQuery{Key: append([]byte{}, req.Data...), Height: h}
	v, ok := sn.kv[string(req.Data)]
	if !ok {
		res.Log = "does not exist"
		return res
	}
	res.Log = "exists"
	res.Value = []byte(v)
	res.Index = int64(sort.SearchStrings(sn.keys, string(req.Data)))
	if req.Prove {
		res.ProofOps = sn.proofOps(string(req.Data))
	}
	return res
}
