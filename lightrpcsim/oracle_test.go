package lightrpcsim

// Ground truth (from the chain generator's own records), canonical encodings, the
// consistency predicates of the soundness oracle and the served-proof oracle.

import (
	"bytes"
	"context"
	"encoding/binary"
	"fmt"

	abci "github.com/tendermint/tendermint/abci/types"
	tmproto "github.com/tendermint/tendermint/proto/tendermint/types"
	ctypes "github.com/tendermint/tendermint/rpc/core/types"
	"github.com/tendermint/tendermint/types"
)

type marshaler interface{ Marshal() ([]byte, error) }

func pb(m marshaler) []byte {
	b, err := m.Marshal()
	if err != nil {
		return []byte("marshal-error:" + err.Error())
	}
	return b
}

// lp joins byte strings with length prefixes.
func lp(parts ...[]byte) []byte {
	var out []byte
	var buf [binary.MaxVarintLen64]byte
	for _, p := range parts {
		n := binary.PutUvarint(buf[:], uint64(len(p)))
		out = append(out, buf[:n]...)
		out = append(out, p...)
	}
	return out
}

func i64(v int64) []byte { return []byte(fmt.Sprintf("%d", v)) }

func canonBlockID(id types.BlockID) []byte { p := id.ToProto(); return pb(&p) }

func canonHeader(h *types.Header) []byte {
	if h == nil {
		return []byte("nil-header")
	}
	return pb(h.ToProto())
}

func canonCommit(c *types.Commit) []byte {
	if c == nil {
		return []byte("nil-commit")
	}
	return pb(c.ToProto())
}

func canonBlock(id types.BlockID, b *types.Block) []byte {
	if b == nil {
		return lp(canonBlockID(id), []byte("nil-block"))
	}
	p, err := b.ToProto()
	if err != nil {
		return lp(canonBlockID(id), []byte("bad-block:"+err.Error()))
	}
	return lp(canonBlockID(id), pb(p))
}

// coveredBlock: the block as committed to by its header hash. Header.LastCommitHash is the
// Merkle root over the CommitSig list only (Commit.Hash): height, round and block id of
// LastCommit are not under any header hash.
func coveredBlock(b *types.Block) []byte {
	p, err := b.ToProto()
	if err != nil {
		return []byte("bad-block:" + err.Error())
	}
	if p.LastCommit != nil {
		lc := *p.LastCommit
		lc.Height, lc.Round, lc.BlockID = 0, 0, tmproto.BlockID{}
		p.LastCommit = &lc
	}
	return pb(p)
}

func canonSignedHeader(sh *types.SignedHeader) []byte {
	return lp(canonHeader(sh.Header), canonCommit(sh.Commit))
}

func canonVal(v *types.Validator) []byte {
	if v == nil {
		return []byte("nil-val")
	}
	var pk []byte
	if v.PubKey != nil {
		pk = v.PubKey.Bytes()
	}
	return lp(v.Address, pk, i64(v.VotingPower))
}

func canonValidators(r *ctypes.ResultValidators) []byte {
	parts := [][]byte{i64(r.BlockHeight), i64(int64(r.Count)), i64(int64(r.Total))}
	for _, v := range r.Validators {
		parts = append(parts, canonVal(v))
	}
	return lp(parts...)
}

func canonTxProof(p *types.TxProof) []byte {
	parts := [][]byte{p.RootHash, p.Data, i64(p.Proof.Total), i64(p.Proof.Index), p.Proof.LeafHash}
	parts = append(parts, p.Proof.Aunts...)
	return lp(parts...)
}

func canonTx(r *ctypes.ResultTx) []byte {
	if r == nil {
		return []byte("nil-tx")
	}
	return lp(r.Hash, i64(r.Height), i64(int64(r.Index)), pb(&r.TxResult), r.Tx, canonTxProof(&r.Proof))
}

func canonTxSearch(r *ctypes.ResultTxSearch) []byte {
	parts := [][]byte{i64(int64(r.TotalCount))}
	for _, t := range r.Txs {
		parts = append(parts, canonTx(t))
	}
	return lp(parts...)
}

func canonBlockResults(r *ctypes.ResultBlockResults) []byte {
	parts := [][]byte{i64(r.Height), pb(&abci.ResponseBeginBlock{Events: r.BeginBlockEvents}),
		pb(&abci.ResponseEndBlock{Events: r.EndBlockEvents, ValidatorUpdates: r.ValidatorUpdates, ConsensusParamUpdates: r.ConsensusParamUpdates})}
	for _, t := range r.TxsResults {
		if t == nil {
			parts = append(parts, []byte("nil"))
		} else {
			parts = append(parts, pb(t))
		}
	}
	return lp(parts...)
}

func canonQuery(r *ctypes.ResultABCIQuery) []byte {
	nilv := []byte{0}
	if r.Response.Value == nil {
		nilv = []byte{1}
	}
	return lp(pb(&r.Response), nilv)
}

func canonParams(r *ctypes.ResultConsensusParams) []byte {
	return lp(i64(r.BlockHeight), pb(&r.ConsensusParams))
}

func canonMeta(m *types.BlockMeta) []byte {
	if m == nil {
		return []byte("nil-meta")
	}
	return lp(canonBlockID(m.BlockID), i64(int64(m.BlockSize)), canonHeader(&m.Header), i64(int64(m.NumTxs)))
}

func canonChainInfo(r *ctypes.ResultBlockchainInfo) []byte {
	parts := [][]byte{i64(r.LastHeight)}
	for _, m := range r.BlockMetas {
		parts = append(parts, canonMeta(m))
	}
	return lp(parts...)
}

// ---------------------------------------------------------------- ground truth

func (s *sim) H() int64 { return s.ch.Height() }

func (s *sim) truthID(h int64) types.BlockID {
	return types.BlockID{Hash: s.ch.Blocks[h].Hash(), PartSetHeader: s.ch.Parts[h].Header()}
}

// valsAt: the validator set of height h (initial <= h <= H+1).
func (s *sim) valsAt(h int64) *types.ValidatorSet {
	if st, ok := s.ch.States[h-1]; ok && h >= s.initial {
		return st.Validators
	}
	return nil
}

func (s *sim) paramsAt(h int64) *tmproto.ConsensusParams {
	if st, ok := s.ch.States[h-1]; ok && h >= s.initial {
		p := st.ConsensusParams
		return &p
	}
	return nil
}

// coveredResult: what the spec says LastResultsHash commits to of one DeliverTx response
// (spec/core/data_structures.md: Log, Info, Codespace and Events are ignored), in the
// deterministic protobuf encoding of {code=1, data=2, gas_wanted=5, gas_used=6}.
func coveredResult(r *abci.ResponseDeliverTx) []byte {
	var out []byte
	uv := func(tag byte, v uint64) {
		if v == 0 {
			return
		}
		var buf [binary.MaxVarintLen64]byte
		n := binary.PutUvarint(buf[:], v)
		out = append(append(out, tag), buf[:n]...)
	}
	uv(0x08, uint64(r.Code))
	if len(r.Data) > 0 {
		out = append(out, 0x12)
		out = append(out, encBytes(r.Data)...)
	}
	uv(0x28, uint64(r.GasWanted))
	uv(0x30, uint64(r.GasUsed))
	return out
}

func coveredResults(rs []*abci.ResponseDeliverTx) [][]byte {
	out := make([][]byte, len(rs))
	for i, r := range rs {
		if r == nil {
			out[i] = []byte("nil")
		} else {
			out[i] = coveredResult(r)
		}
	}
	return out
}

// ---------------------------------------------------------------- consistency predicates: covered fields of a returned
// response against the truth at the coordinates (height / index / key) the response itself claims.

func (s *sim) okBlock(r *ctypes.ResultBlock) (bool, string) {
	if r == nil || r.Block == nil {
		return false, "nil block returned"
	}
	h := r.Block.Height
	tb := s.ch.Blocks[h]
	if tb == nil {
		return false, fmt.Sprintf("block claims height %d which does not exist", h)
	}
	if !bytes.Equal(canonBlockID(r.BlockID), canonBlockID(s.truthID(h))) {
		return false, fmt.Sprintf("block id of height %d differs from the committed one (returned %v)", h, r.BlockID)
	}
	if !bytes.Equal(coveredBlock(r.Block), coveredBlock(tb)) {
		return false, fmt.Sprintf("block %d differs from the committed block", h)
	}
	if !bytes.Equal(canonBlock(types.BlockID{}, r.Block), canonBlock(types.BlockID{}, tb)) {
		s.env.Count("probe.uncovered_last_commit_meta_accepted")
	}
	return true, ""
}

func (s *sim) okCommit(r *ctypes.ResultCommit) (bool, string) {
	if r == nil || r.Header == nil || r.Commit == nil {
		return false, "nil signed header returned"
	}
	h := r.Header.Height
	tb := s.ch.Blocks[h]
	if tb == nil {
		return false, fmt.Sprintf("header claims height %d which does not exist", h)
	}
	if !bytes.Equal(canonHeader(r.Header), canonHeader(&tb.Header)) {
		return false, fmt.Sprintf("header %d differs from the committed header", h)
	}
	if !bytes.Equal(canonCommit(r.Commit), canonCommit(s.ch.Commits[h])) {
		return false, fmt.Sprintf("commit %d differs from the commit of the chain", h)
	}
	return true, ""
}

func pageBounds(page, perPage, total int) (lo, hi int, ok bool) {
	if perPage < 1 {
		perPage = 30
	} else if perPage > 100 {
		perPage = 100
	}
	pages := (total-1)/perPage + 1
	if pages < 1 {
		pages = 1
	}
	if page == -1 {
		page = 1
	}
	if page < 1 || page > pages {
		return 0, 0, false
	}
	lo = (page - 1) * perPage
	hi = lo + perPage
	if hi > total {
		hi = total
	}
	return lo, hi, true
}

func (s *sim) okValidators(r *ctypes.ResultValidators, page, perPage int) (bool, string) {
	if r == nil {
		return false, "nil result"
	}
	vs := s.valsAt(r.BlockHeight)
	if vs == nil {
		return false, fmt.Sprintf("validators claim height %d which does not exist", r.BlockHeight)
	}
	lo, hi, ok := pageBounds(page, perPage, len(vs.Validators))
	if !ok {
		return false, "a page outside the range was answered"
	}
	if r.Total != len(vs.Validators) || r.Count != hi-lo || len(r.Validators) != hi-lo {
		return false, fmt.Sprintf("validators of height %d: total=%d count=%d len=%d, expected total=%d count=%d", r.BlockHeight, r.Total, r.Count, len(r.Validators), len(vs.Validators), hi-lo)
	}
	for i, v := range r.Validators {
		if !bytes.Equal(canonVal(v), canonVal(vs.Validators[lo+i])) {
			return false, fmt.Sprintf("validator #%d of height %d differs from the committed set", lo+i, r.BlockHeight)
		}
	}
	return true, ""
}

// okTx checks one proven transaction. aspect names what is wrong first ("tx", "hash",
// "index", "proof", "result").
func (s *sim) okTx(r *ctypes.ResultTx) (ok bool, aspect, why string) {
	if r == nil {
		return false, "tx", "nil result"
	}
	tb := s.ch.Blocks[r.Height]
	if tb == nil {
		return false, "height", fmt.Sprintf("tx claims height %d which does not exist", r.Height)
	}
	txs := tb.Data.Txs
	if int(r.Index) >= len(txs) {
		return false, "index", fmt.Sprintf("tx claims index %d of block %d which has %d txs", r.Index, r.Height, len(txs))
	}
	if !bytes.Equal(r.Tx, txs[r.Index]) {
		if j := txs.Index(r.Tx); j >= 0 {
			return false, "index", fmt.Sprintf("tx is at index %d of block %d, not at the returned index %d", j, r.Height, r.Index)
		}
		return false, "tx", fmt.Sprintf("returned tx bytes %q are not the tx at height %d index %d (%q)", r.Tx, r.Height, r.Index, txs[r.Index])
	}
	if !bytes.Equal(r.Hash, sha(r.Tx)) {
		return false, "hash", fmt.Sprintf("returned hash %X is not the hash of the returned tx", []byte(r.Hash))
	}
	p := r.Proof
	if !bytes.Equal(p.RootHash, tb.DataHash) || !bytes.Equal(p.Data, r.Tx) || p.Proof.Index != int64(r.Index) ||
		!bytes.Equal(myRootFromPath(p.Proof.Index, int64(len(txs)), leafOfTx(r.Tx), p.Proof.Aunts), tb.DataHash) ||
		!bytes.Equal(p.Proof.LeafHash, leafOfTx(r.Tx)) {
		return false, "proof", fmt.Sprintf("returned proof is not a valid inclusion proof of the tx at index %d under the data hash of block %d", r.Index, r.Height)
	}
	tr := s.results[r.Height]
	if tr == nil || int(r.Index) >= len(tr.DeliverTxs) ||
		!bytes.Equal(coveredResult(&r.TxResult), coveredResult(tr.DeliverTxs[r.Index])) {
		return false, "result", fmt.Sprintf("returned tx result (code=%d data=%q gas=%d/%d) differs from the result committed by LastResultsHash of header %d", r.TxResult.Code, r.TxResult.Data, r.TxResult.GasWanted, r.TxResult.GasUsed, r.Height+1)
	}
	return true, "", ""
}

func (s *sim) okBlockResults(r *ctypes.ResultBlockResults) (bool, string) {
	if r == nil {
		return false, "nil result"
	}
	tr := s.results[r.Height]
	if tr == nil {
		return false, fmt.Sprintf("results claim height %d which does not exist", r.Height)
	}
	got, want := coveredResults(r.TxsResults), coveredResults(tr.DeliverTxs)
	if len(got) != len(want) {
		return false, fmt.Sprintf("results of height %d: %d tx results returned, %d committed", r.Height, len(got), len(want))
	}
	for i := range got {
		if !bytes.Equal(got[i], want[i]) {
			return false, fmt.Sprintf("tx result #%d of height %d differs (code/data/gas) from the committed one", i, r.Height)
		}
	}
	return true, ""
}

func (s *sim) okQuery(r *ctypes.ResultABCIQuery) (bool, string) {
	if r == nil {
		return false, "nil result"
	}
	q := r.Response
	if q.Code != 0 {
		return false, fmt.Sprintf("an error response (code %d) was relayed as verified", q.Code)
	}
	sn := s.ms.snaps[q.Height]
	if sn == nil || q.Height <= 0 {
		return false, fmt.Sprintf("response claims height %d for which no state exists", q.Height)
	}
	v, ok := sn.kv[string(q.Key)]
	if q.Value == nil {
		if ok {
			return false, fmt.Sprintf("key %q reported absent at height %d but it has value %q", q.Key, q.Height, v)
		}
		return true, ""
	}
	if !ok || v != string(q.Value) {
		return false, fmt.Sprintf("key %q at height %d: returned value %q, committed value %q (exists=%v)", q.Key, q.Height, q.Value, v, ok)
	}
	return true, ""
}

func (s *sim) okParams(r *ctypes.ResultConsensusParams) (bool, string) {
	if r == nil {
		return false, "nil result"
	}
	p := s.paramsAt(r.BlockHeight)
	if p == nil {
		return false, fmt.Sprintf("params claim height %d which does not exist", r.BlockHeight)
	}
	// ConsensusHash commits to block.max_bytes and block.max_gas only (types.HashConsensusParams / HashedParams).
	if r.ConsensusParams.Block.MaxBytes != p.Block.MaxBytes || r.ConsensusParams.Block.MaxGas != p.Block.MaxGas {
		return false, fmt.Sprintf("block params of height %d: returned %d/%d, committed %d/%d", r.BlockHeight,
			r.ConsensusParams.Block.MaxBytes, r.ConsensusParams.Block.MaxGas, p.Block.MaxBytes, p.Block.MaxGas)
	}
	return true, ""
}

func (s *sim) okChainInfo(r *ctypes.ResultBlockchainInfo) (bool, string) {
	if r == nil {
		return false, "nil result"
	}
	for i, m := range r.BlockMetas {
		if m == nil {
			return false, fmt.Sprintf("nil meta #%d", i)
		}
		tb := s.ch.Blocks[m.Header.Height]
		if tb == nil {
			return false, fmt.Sprintf("meta #%d claims height %d which does not exist", i, m.Header.Height)
		}
		if !bytes.Equal(canonHeader(&m.Header), canonHeader(&tb.Header)) {
			return false, fmt.Sprintf("meta header %d differs from the committed header", m.Header.Height)
		}
		if !bytes.Equal(canonBlockID(m.BlockID), canonBlockID(s.truthID(m.Header.Height))) {
			return false, fmt.Sprintf("meta block id %d differs from the committed one", m.Header.Height)
		}
	}
	return true, ""
}

// ---------------------------------------------------------------- oracle (3): proofs served by the real rpc/core

func (s *sim) checkProofs(h int64) {
	e := s.env
	tb := s.ch.Blocks[h]
	if tb == nil {
		return
	}
	txs := tb.Data.Txs
	hashes := make([][]byte, len(txs))
	for i, tx := range txs {
		hashes[i] = sha(tx)
	}
	if !bytes.Equal(myRoot(hashes), tb.DataHash) {
		e.Fail("C20", "data-hash-not-merkle-root", "data hash of block %d is not the RFC-6962 root over its tx hashes", h)
	}
	// check validates one served entry against the block and index the entry itself refers to.
	check := func(via string, r *ctypes.ResultTx) {
		rb := s.ch.Blocks[r.Height]
		if rb == nil || int(r.Index) >= len(rb.Data.Txs) {
			e.Fail("C20", "served-tx-wrong", "%s: served entry refers to height=%d index=%d which does not exist", via, r.Height, r.Index)
		}
		rtxs, i := rb.Data.Txs, int(r.Index)
		p := r.Proof
		if !bytes.Equal(r.Tx, rtxs[i]) {
			e.Fail("C20", "served-tx-wrong", "%s: tx served as height=%d index=%d is %q, the block has %q there", via, r.Height, r.Index, r.Tx, rtxs[i])
		}
		if !bytes.Equal(p.RootHash, rb.DataHash) {
			e.Fail("C20", "served-proof-invalid", "%s: proof of tx %d of block %d has root %X, data hash is %X", via, i, r.Height, []byte(p.RootHash), []byte(rb.DataHash))
		}
		if !bytes.Equal(p.Data, rtxs[i]) || !bytes.Equal(p.Proof.LeafHash, leafOfTx(rtxs[i])) || p.Proof.Index != int64(i) || p.Proof.Total != int64(len(rtxs)) {
			e.Fail("C20", "served-proof-wrong-leaf", "%s: proof served for tx %d of block %d (n=%d) is for index=%d total=%d data=%q", via, i, r.Height, len(rtxs), p.Proof.Index, p.Proof.Total, p.Data)
		}
		if !bytes.Equal(myRootFromPath(p.Proof.Index, p.Proof.Total, leafOfTx(rtxs[i]), p.Proof.Aunts), rb.DataHash) {
			e.Fail("C20", "served-proof-invalid", "%s: audit path served for tx %d of block %d does not lead to the data hash", via, i, r.Height)
		}
		for j := range rtxs {
			if j != i && !bytes.Equal(rtxs[j], rtxs[i]) &&
				bytes.Equal(myRootFromPath(p.Proof.Index, p.Proof.Total, leafOfTx(rtxs[j]), p.Proof.Aunts), rb.DataHash) {
				e.Fail("C20", "served-proof-ambiguous", "proof of tx %d of block %d also validates for tx %d", i, r.Height, j)
			}
		}
		e.Count("probe.served_proof_checked")
	}
	mine := map[int]bool{}
	for i, tx := range txs {
		if loc, ok := s.txLoc[string(hashes[i])]; !ok || loc.h != h || loc.idx != i {
			continue // the same tx was committed again later; the index keeps the last one
		}
		mine[i] = true
		r, err := s.hon.Tx(context.Background(), hashes[i], true)
		if err != nil {
			e.Fail("C20", "served-tx-missing", "rpc/core.Tx(%X) of block %d index %d (%q) failed: %v", hashes[i], h, i, tx, err)
		}
		if r.Height != h || int(r.Index) != i {
			e.Fail("C20", "served-tx-wrong", "rpc/core.Tx(%X): tx %d of block %d served as height=%d index=%d", hashes[i], i, h, r.Height, r.Index)
		}
		check("tx", r)
	}
	pp := 100
	sr, err := s.hon.TxSearch(context.Background(), fmt.Sprintf("tx.height=%d", h), true, nil, &pp, "asc")
	if err != nil {
		e.Fail("C20", "served-tx-missing", "rpc/core.TxSearch(tx.height=%d) failed: %v", h, err)
	}
	for _, r := range sr.Txs {
		// a tx committed again at a later height is served with its later position: the entry
		// must then be right for the block it names
		check("tx_search", r)
		if r.Height == h {
			delete(mine, int(r.Index))
		}
	}
	if len(mine) > 0 {
		e.Fail("C20", "served-tx-missing", "rpc/core.TxSearch(tx.height=%d) returned %d txs and misses %d tx(s) indexed at that height", h, len(sr.Txs), len(mine))
	}
}

// checkResultsHash: header h+1 commits to the results of block h exactly as the spec says.
func (s *sim) checkResultsHash(h int64) {
	nb, tr := s.ch.Blocks[h+1], s.results[h]
	if nb == nil || tr == nil {
		return
	}
	if !bytes.Equal(myRoot(coveredResults(tr.DeliverTxs)), nb.LastResultsHash) {
		s.env.Fail("C20", "results-hash-not-spec", "LastResultsHash of header %d is not the Merkle root over (code,data,gas_wanted,gas_used) of the %d results of block %d", h+1, len(tr.DeliverTxs), h)
	}
	if sn := s.ms.snaps[h]; sn == nil || !bytes.Equal(sn.root, nb.AppHash) {
		s.env.Fail("C20", "app-hash-chain", "AppHash of header %d is not the application root after block %d", h+1, h)
	}
}
