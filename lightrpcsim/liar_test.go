package lightrpcsim

// The lying server: the honest backend with exactly one field of one response falsified
// (optionally made self-consistent by recomputing the hashes a liar can recompute).

import (
	"bytes"
	"context"
	"fmt"
	"time"

	abci "github.com/tendermint/tendermint/abci/types"
	"github.com/tendermint/tendermint/crypto/merkle"
	tmbytes "github.com/tendermint/tendermint/libs/bytes"
	tmcrypto "github.com/tendermint/tendermint/proto/tendermint/crypto"
	tmproto "github.com/tendermint/tendermint/proto/tendermint/types"
	rpcclient "github.com/tendermint/tendermint/rpc/client"
	ctypes "github.com/tendermint/tendermint/rpc/core/types"
	"github.com/tendermint/tendermint/types"

	"verif/chaingen"
)

type lie struct {
	method, field string
	i, x, fix     int
	fired         bool
	desc          string
}

// catalogue of falsifiable fields per backend method (order is part of the trace format).
var lieFields = map[string][]string{
	"block": {"blockid.hash", "blockid.parts.total", "blockid.parts.hash",
		"header.version", "header.chain_id", "header.height", "header.time", "header.last_block_id", "header.last_commit_hash",
		"header.data_hash", "header.validators_hash", "header.next_validators_hash", "header.consensus_hash", "header.app_hash",
		"header.last_results_hash", "header.evidence_hash", "header.proposer",
		"data.tx_byte", "data.tx_drop", "data.tx_add", "data.tx_swap",
		"last_commit.sig_byte", "last_commit.round", "last_commit.flag", "last_commit.height", "last_commit.timestamp",
		"evidence.add", "other_height"},
	"commit":     {"header.app_hash", "header.height", "commit.sig_byte", "commit.block_id", "other_height"},
	"validators": {"power", "pubkey", "address", "drop", "total", "height"},
	"tx": {"hash", "height", "index", "tx_byte", "result.code", "result.data", "result.gas_wanted", "result.gas_used",
		"result.log", "result.info", "result.events", "result.codespace",
		"proof.root_hash", "proof.data_byte", "proof.leaf_hash", "proof.aunt_byte", "proof.aunt_drop", "proof.aunt_add",
		"proof.index", "proof.total", "other_tx",
		// coherent restatements of a genuine proof (result index and proof index moved together), restated totals, transplants
		"proof.restate_eq_total", "proof.restate_index", "proof.restate_total", "proof.transplant_aunts", "proof.transplant_proof"},
	"tx_search": {"tx.hash", "tx.height", "tx.index", "tx.tx_byte", "tx.result.code", "tx.result.data", "tx.result.gas_wanted", "tx.result.gas_used",
		"tx.result.log", "tx.result.events",
		"tx.proof.root_hash", "tx.proof.data_byte", "tx.proof.leaf_hash", "tx.proof.aunt_byte", "tx.proof.index", "tx.proof.total",
		"total_count", "drop_one",
		"tx.proof.restate_eq_total", "tx.proof.restate_index", "tx.proof.restate_total", "tx.proof.transplant_aunts", "tx.proof.transplant_proof",
		"forge_hit", "total_count_zero", "total_count_less"},
	"block_results": {"height", "tx.code", "tx.data", "tx.gas_wanted", "tx.gas_used", "tx.log", "tx.info", "tx.events", "tx.codespace",
		"tx_drop", "tx_add", "tx_swap", "begin_events", "end_events", "val_updates", "param_updates", "other_height", "tx_nil"},
	"abci_query": {"value_byte", "value_nil", "key_byte", "height", "code", "log", "index",
		"proof.drop_first", "proof.drop_last", "proof.op_data_byte", "proof.op_type", "proof.op_key", "proof.nil", "proof.swap",
		"forged_store", "other_key", "other_height", "proof.restate_index", "proof.restate_total",
		// value + membership proof of ANOTHER existing key presented under the requested key
		"transplant.prefix", "transplant.extension", "transplant.urlvariant", "transplant.other"},
	"consensus_params": {"block.max_bytes", "block.max_gas", "block.time_iota_ms", "evidence.max_age_num_blocks", "evidence.max_age_duration",
		"evidence.max_bytes", "validator.pub_key_types", "version.app_version", "height", "other_height"},
	"blockchain": {"last_height", "meta.blockid.hash", "meta.blockid.parts", "meta.header.app_hash", "meta.header.height", "meta.header.time",
		"meta.header.data_hash", "meta.block_size", "meta.num_txs", "meta_drop", "meta_nil"},
	"status": {"latest_height"},
}

// lieFields2: control fields that may be falsified TOGETHER with the primary lie of the same
// response (numbers a client might base a decision on; uncovered by themselves).
var lieFields2 = map[string][]string{
	"tx_search": {"total_count_zero", "total_count_zero", "total_count_less", "total_count"},
}

func flip(b []byte, i, x int) []byte {
	if x&0xff == 0 {
		x = 1
	}
	out := append([]byte{}, b...)
	if len(out) == 0 {
		return []byte{byte(x)}
	}
	out[i%len(out)] ^= byte(x)
	return out
}

func delta(x int) int64 {
	d := int64(x%3) + 1
	if x&8 != 0 {
		d = -d
	}
	return d
}

type liar struct {
	*honest
	s *sim
}

func (l *liar) take(method string) *lie {
	if li := l.s.lie; li != nil && !li.fired && li.method == method {
		return li
	}
	return nil
}

func (l *liar) take2(method string) *lie {
	if li := l.s.lie2; li != nil && !li.fired && li.method == method {
		return li
	}
	return nil
}

// fire marks the lie as told when the response really changed.
func (l *liar) fire(li *lie, before, after []byte, desc string) {
	if !bytes.Equal(before, after) {
		li.fired = true
		li.desc = desc
		l.s.env.Count("fault.lie." + li.method)
	}
}

func (l *liar) Status(ctx context.Context) (*ctypes.ResultStatus, error) {
	res, err := l.honest.Status(ctx)
	if li := l.take("status"); li != nil && err == nil {
		old := res.SyncInfo.LatestBlockHeight
		res.SyncInfo.LatestBlockHeight += delta(li.x)
		l.fire(li, []byte{0}, []byte{1}, fmt.Sprintf("status.latest_height %d->%d", old, res.SyncInfo.LatestBlockHeight))
	}
	return res, err
}

// ---------------------------------------------------------------- block

func (l *liar) Block(ctx context.Context, height *int64) (*ctypes.ResultBlock, error) {
	res, err := l.honest.Block(ctx, height)
	if li := l.take("block"); li != nil && err == nil && res.Block != nil {
		res = l.lieBlock(li, res)
	}
	return res, err
}

func (l *liar) BlockByHash(ctx context.Context, hash []byte) (*ctypes.ResultBlock, error) {
	res, err := l.honest.BlockByHash(ctx, hash)
	if li := l.take("block"); li != nil && err == nil && res.Block != nil {
		res = l.lieBlock(li, res)
	}
	return res, err
}

func (l *liar) forgedEvidence(h int64) types.Evidence {
	ch := l.s.ch
	k := chaingen.Key(0)
	mk := func(tag string) *types.Vote {
		bh := sha([]byte(tag))
		v := &types.Vote{Type: tmproto.PrecommitType, Height: h, Round: 0,
			BlockID:   types.BlockID{Hash: bh, PartSetHeader: types.PartSetHeader{Total: 1, Hash: bh}},
			Timestamp: ch.GenDoc.GenesisTime, ValidatorAddress: k.PubKey().Address(), ValidatorIndex: 0}
		sig, _ := k.Sign(types.VoteSignBytes(ch.GenDoc.ChainID, v.ToProto()))
		v.Signature = sig
		return v
	}
	a, b := mk("forged-a"), mk("forged-b")
	if a.BlockID.Key() > b.BlockID.Key() {
		a, b = b, a
	}
	return &types.DuplicateVoteEvidence{VoteA: a, VoteB: b, TotalVotingPower: 10, ValidatorPower: 1, Timestamp: ch.GenDoc.GenesisTime}
}

func (l *liar) lieBlock(li *lie, res *ctypes.ResultBlock) *ctypes.ResultBlock {
	before := canonBlock(res.BlockID, res.Block)
	b := res.Block
	h := &b.Header
	dataChanged, commitChanged, evChanged := false, false, false
	switch li.field {
	case "blockid.hash":
		res.BlockID.Hash = flip(res.BlockID.Hash, li.i, li.x)
	case "blockid.parts.total":
		res.BlockID.PartSetHeader.Total += uint32(li.x%3) + 1
	case "blockid.parts.hash":
		res.BlockID.PartSetHeader.Hash = flip(res.BlockID.PartSetHeader.Hash, li.i, li.x)
	case "header.version":
		h.Version.App += uint64(li.x)
	case "header.chain_id":
		h.ChainID += "x"
	case "header.height":
		h.Height += delta(li.x)
	case "header.time":
		h.Time = h.Time.Add(time.Duration(li.x) * time.Millisecond)
	case "header.last_block_id":
		h.LastBlockID.Hash = flip(h.LastBlockID.Hash, li.i, li.x)
	case "header.last_commit_hash":
		h.LastCommitHash = flip(h.LastCommitHash, li.i, li.x)
	case "header.data_hash":
		h.DataHash = flip(h.DataHash, li.i, li.x)
	case "header.validators_hash":
		h.ValidatorsHash = flip(h.ValidatorsHash, li.i, li.x)
	case "header.next_validators_hash":
		h.NextValidatorsHash = flip(h.NextValidatorsHash, li.i, li.x)
	case "header.consensus_hash":
		h.ConsensusHash = flip(h.ConsensusHash, li.i, li.x)
	case "header.app_hash":
		h.AppHash = flip(h.AppHash, li.i, li.x)
	case "header.last_results_hash":
		h.LastResultsHash = flip(h.LastResultsHash, li.i, li.x)
	case "header.evidence_hash":
		h.EvidenceHash = flip(h.EvidenceHash, li.i, li.x)
	case "header.proposer":
		h.ProposerAddress = flip(h.ProposerAddress, li.i, li.x)
	case "data.tx_byte", "data.tx_drop", "data.tx_add", "data.tx_swap":
		txs := append(types.Txs{}, b.Data.Txs...)
		n := len(txs)
		switch {
		case li.field == "data.tx_add":
			txs = append(txs, types.Tx(fmt.Sprintf("forged%d=1", li.i)))
		case n == 0:
			return res
		case li.field == "data.tx_byte":
			txs[li.i%n] = flip(txs[li.i%n], li.i/n, li.x)
		case li.field == "data.tx_drop":
			txs = append(txs[:li.i%n], txs[li.i%n+1:]...)
		case n >= 2:
			a := li.i % n
			c := (a + 1 + li.x%(n-1)) % n
			txs[a], txs[c] = txs[c], txs[a]
		}
		b.Data = types.Data{Txs: txs}
		dataChanged = true
	case "last_commit.sig_byte", "last_commit.round", "last_commit.flag", "last_commit.height", "last_commit.timestamp":
		lc := b.LastCommit
		if lc == nil {
			return res
		}
		sigs := append([]types.CommitSig{}, lc.Signatures...)
		height, round := lc.Height, lc.Round
		switch li.field {
		case "last_commit.round":
			round += int32(li.x%3) + 1
		case "last_commit.height":
			height += int64(li.x%3) + 1
		default:
			k := -1
			for j := range sigs {
				if c := (li.i + j) % len(sigs); sigs[c].BlockIDFlag == types.BlockIDFlagCommit {
					k = c
					break
				}
			}
			if k < 0 {
				return res
			}
			switch li.field {
			case "last_commit.sig_byte":
				sigs[k].Signature = flip(sigs[k].Signature, li.i, li.x)
			case "last_commit.flag":
				sigs[k] = types.NewCommitSigAbsent()
			case "last_commit.timestamp":
				sigs[k].Timestamp = sigs[k].Timestamp.Add(time.Duration(li.x) * time.Millisecond)
			}
		}
		b.LastCommit = types.NewCommit(height, round, lc.BlockID, sigs)
		commitChanged = true
	case "evidence.add":
		b.Evidence = types.EvidenceData{Evidence: append(append(types.EvidenceList{}, b.Evidence.Evidence...), l.forgedEvidence(b.Height))}
		evChanged = true
	case "other_height":
		oh := l.s.otherHeight(b.Height, li.i)
		if o, err := l.honest.Block(context.Background(), &oh); err == nil && o.Block != nil {
			res = o
		}
	default:
		return res
	}
	if li.fix > 0 && li.field != "other_height" && res.Block != nil {
		if dataChanged {
			h.DataHash = b.Data.Hash()
		}
		if commitChanged {
			h.LastCommitHash = b.LastCommit.Hash()
		}
		if evChanged {
			h.EvidenceHash = b.Evidence.Hash()
		}
		if li.field != "blockid.hash" {
			res.BlockID.Hash = b.Hash()
		}
	}
	l.fire(li, before, canonBlock(res.BlockID, res.Block), fmt.Sprintf("block.%s fix=%d", li.field, li.fix))
	return res
}

// ---------------------------------------------------------------- commit / validators (light/rpc 0.34 never asks the backend)

func (l *liar) Commit(ctx context.Context, height *int64) (*ctypes.ResultCommit, error) {
	res, err := l.honest.Commit(ctx, height)
	l.s.env.Count("probe.backend_commit_consulted")
	if li := l.take("commit"); li != nil && err == nil && res != nil && res.Header != nil && res.Commit != nil {
		before := canonSignedHeader(&res.SignedHeader)
		hd := *res.Header
		switch li.field {
		case "header.app_hash":
			hd.AppHash = flip(hd.AppHash, li.i, li.x)
			res.Header = &hd
		case "header.height":
			hd.Height += delta(li.x)
			res.Header = &hd
		case "commit.sig_byte":
			sigs := append([]types.CommitSig{}, res.Commit.Signatures...)
			k := li.i % len(sigs)
			sigs[k].Signature = flip(sigs[k].Signature, li.i, li.x)
			res.Commit = types.NewCommit(res.Commit.Height, res.Commit.Round, res.Commit.BlockID, sigs)
		case "commit.block_id":
			bid := res.Commit.BlockID
			bid.Hash = flip(bid.Hash, li.i, li.x)
			res.Commit = types.NewCommit(res.Commit.Height, res.Commit.Round, bid, res.Commit.Signatures)
		case "other_height":
			oh := l.s.otherHeight(hd.Height, li.i)
			if o, err := l.honest.Commit(ctx, &oh); err == nil && o != nil {
				res = o
			}
		}
		l.fire(li, before, canonSignedHeader(&res.SignedHeader), "commit."+li.field)
	}
	return res, err
}

func (l *liar) Validators(ctx context.Context, height *int64, page, perPage *int) (*ctypes.ResultValidators, error) {
	res, err := l.honest.Validators(ctx, height, page, perPage)
	l.s.env.Count("probe.backend_validators_consulted")
	if li := l.take("validators"); li != nil && err == nil && len(res.Validators) > 0 {
		before := canonValidators(res)
		vs := make([]*types.Validator, len(res.Validators))
		for i, v := range res.Validators {
			vs[i] = v.Copy()
		}
		k := li.i % len(vs)
		switch li.field {
		case "power":
			vs[k].VotingPower += int64(li.x)
		case "pubkey":
			vs[k].PubKey = chaingen.Key(1000 + li.x).PubKey()
		case "address":
			vs[k].Address = flip(vs[k].Address, li.i, li.x)
		case "drop":
			vs = append(vs[:k], vs[k+1:]...)
			res.Count = len(vs)
		case "total":
			res.Total += li.x%3 + 1
		case "height":
			res.BlockHeight += delta(li.x)
		}
		res.Validators = vs
		l.fire(li, before, canonValidators(res), "validators."+li.field)
	}
	return res, err
}

// ---------------------------------------------------------------- tx / tx_search

func (l *liar) Tx(ctx context.Context, hash []byte, prove bool) (*ctypes.ResultTx, error) {
	res, err := l.honest.Tx(ctx, hash, prove)
	if li := l.take("tx"); li != nil && err == nil && res != nil {
		before := canonTx(res)
		if li.field == "other_tx" {
			if oh := l.s.otherTx(hash, li.i); oh != nil {
				if o, err := l.honest.Tx(ctx, oh, prove); err == nil {
					res = o
				}
			}
		} else {
			l.lieTx(li, li.field, res, prove)
		}
		l.fire(li, before, canonTx(res), fmt.Sprintf("tx.%s fix=%d prove=%v", li.field, li.fix, prove))
	}
	return res, err
}

func leafOfTx(tx []byte) []byte { return sha([]byte{0}, sha(tx)) }

func (l *liar) lieTx(li *lie, field string, r *ctypes.ResultTx, prove bool) {
	p := &r.Proof
	switch field {
	case "hash":
		r.Hash = flip(r.Hash, li.i, li.x)
	case "height":
		r.Height += delta(li.x)
		if r.Height <= 0 {
			r.Height = 1
		}
	case "index":
		r.Index += uint32(li.x%3) + 1
	case "tx_byte":
		r.Tx = flip(r.Tx, li.i, li.x)
		if prove && li.fix >= 1 {
			p.Data = append(types.Tx{}, r.Tx...)
			p.Proof.LeafHash = leafOfTx(r.Tx)
			if li.fix >= 2 {
				r.Hash = sha(r.Tx)
				p.RootHash = p.Proof.ComputeRootHash()
			}
		}
	case "result.code":
		r.TxResult.Code += uint32(li.x%3) + 1
		if li.x&4 != 0 {
			r.TxResult.Code = 0 // "the failed tx succeeded"
		}
	case "result.data":
		r.TxResult.Data = flip(r.TxResult.Data, li.i, li.x)
	case "result.gas_wanted":
		r.TxResult.GasWanted += int64(li.x)
	case "result.gas_used":
		r.TxResult.GasUsed += int64(li.x)
	case "result.log":
		r.TxResult.Log += "x"
	case "result.info":
		r.TxResult.Info += "x"
	case "result.codespace":
		r.TxResult.Codespace += "x"
	case "result.events":
		r.TxResult.Events = append(append([]abci.Event{}, r.TxResult.Events...), abci.Event{Type: "forged"})
	default:
		if !prove {
			return
		}
		pr := &p.Proof
		switch field {
		case "proof.root_hash":
			p.RootHash = flip(p.RootHash, li.i, li.x)
		case "proof.data_byte":
			p.Data = flip(p.Data, li.i, li.x)
			if li.fix >= 1 {
				pr.LeafHash = leafOfTx(p.Data)
			}
			if li.fix >= 2 {
				p.RootHash = pr.ComputeRootHash()
			}
		case "proof.leaf_hash":
			pr.LeafHash = flip(pr.LeafHash, li.i, li.x)
		case "proof.aunt_byte":
			if len(pr.Aunts) == 0 {
				return
			}
			a := append([][]byte{}, pr.Aunts...)
			a[li.i%len(a)] = flip(a[li.i%len(a)], li.i, li.x)
			pr.Aunts = a
			if li.fix >= 2 {
				p.RootHash = pr.ComputeRootHash()
			}
		case "proof.aunt_drop":
			if len(pr.Aunts) == 0 {
				return
			}
			k := li.i % len(pr.Aunts)
			pr.Aunts = append(append([][]byte{}, pr.Aunts[:k]...), pr.Aunts[k+1:]...)
		case "proof.aunt_add":
			pr.Aunts = append(append([][]byte{}, pr.Aunts...), sha([]byte{byte(li.x)}))
		case "proof.index":
			pr.Index += int64(li.x%3) + 1
			if li.x&4 != 0 && pr.Index > 2 {
				pr.Index -= 2 * (int64(li.x%3) + 1)
			}
		case "proof.total":
			pr.Total += int64(li.x%3) + 1
		default:
			l.restateTx(li, field, r)
		}
	}
}

// restateTx: coherent restatements of genuine proofs. The transaction, its hash and the audit
// path stay genuine; what is claimed about their position changes, in the result and in the
// proof alike, so that only the root recomputation can tell.
func (l *liar) restateTx(li *lie, field string, r *ctypes.ResultTx) {
	tb := l.s.ch.Blocks[r.Height]
	if tb == nil || int(r.Index) >= len(tb.Data.Txs) {
		return
	}
	txs := tb.Data.Txs
	total, k := int64(len(txs)), int64(r.Index)
	pr := &r.Proof.Proof
	setIndex := func(j int64) {
		if j < 0 {
			j = total
		}
		r.Index, pr.Index = uint32(j), j
	}
	switch field {
	case "proof.restate_eq_total":
		// the genuine proof of the LAST leaf presented as leaf number `total`
		if li.x&3 != 0 && k != total-1 {
			if o, err := l.honest.Tx(context.Background(), sha(txs[total-1]), true); err == nil && o.Height == r.Height && int64(o.Index) == total-1 {
				*r = *o
				pr = &r.Proof.Proof
			}
		}
		setIndex(total)
		if li.fix >= 2 {
			pr.Total = total + 1 // ... of a block that would then have one more tx
		}
	case "proof.restate_index":
		j := []int64{total + 1, k + 1, k - 1, total, int64(li.i) % (total + 3), 2*total - 1 - k}[li.x%6]
		if j == k {
			j = k + 1
		}
		setIndex(j)
	case "proof.restate_total":
		nt := total - 1
		if li.x&1 != 0 || nt <= 0 {
			nt = total + 1
		}
		pr.Total = nt
		if li.fix >= 1 && k >= nt {
			setIndex(nt - 1)
		}
	case "proof.transplant_aunts", "proof.transplant_proof":
		if total < 2 {
			return
		}
		o := (k + 1 + int64(li.i)%(total-1)) % total
		op := txs.Proof(int(o))
		if field == "proof.transplant_aunts" {
			pr.Aunts = op.Proof.Aunts
		} else {
			lh := pr.LeafHash
			*pr = op.Proof
			if li.fix >= 2 {
				r.Proof.Data = op.Data // the whole proof of the other tx next to this tx
			} else {
				pr.LeafHash = lh // the other leaf's path under this leaf
			}
		}
		if li.fix >= 1 {
			r.Index = uint32(o)
			pr.Index = o
		} else {
			pr.Index = k
		}
	}
}

func (l *liar) TxSearch(ctx context.Context, query string, prove bool, page, perPage *int, orderBy string) (*ctypes.ResultTxSearch, error) {
	res, err := l.honest.TxSearch(ctx, query, prove, page, perPage, orderBy)
	if err != nil || res == nil {
		return res, err
	}
	for _, li := range []*lie{l.take("tx_search"), l.take2("tx_search")} {
		if li == nil {
			continue
		}
		before := canonTxSearch(res)
		switch {
		case li.field == "total_count":
			res.TotalCount += li.x%3 + 1
		case li.field == "total_count_zero":
			res.TotalCount = 0
		case li.field == "total_count_less":
			if res.TotalCount = len(res.Txs) - 1 - li.x%2; res.TotalCount < 0 {
				res.TotalCount = 0
			}
		case li.field == "forge_hit":
			res.Txs = append(append([]*ctypes.ResultTx{}, res.Txs...), l.forgedHit(li, prove))
			if li.fix >= 1 {
				res.TotalCount++
			}
		case len(res.Txs) == 0:
		case li.field == "drop_one":
			k := li.i % len(res.Txs)
			res.Txs = append(append([]*ctypes.ResultTx{}, res.Txs[:k]...), res.Txs[k+1:]...)
		default:
			k := li.i % len(res.Txs)
			l.lieTx(li, li.field[3:], res.Txs[k], prove)
		}
		l.fire(li, before, canonTxSearch(res), fmt.Sprintf("tx_search.%s fix=%d prove=%v", li.field, li.fix, prove))
	}
	return res, err
}

// forgedHit: a search hit for a transaction that was never committed, with a proof that is
// consistent in itself (a one-leaf tree over the forged tx).
func (l *liar) forgedHit(li *lie, prove bool) *ctypes.ResultTx {
	tx := types.Tx(fmt.Sprintf("forged%d=%d", li.i, li.x))
	r := &ctypes.ResultTx{Hash: tx.Hash(), Height: l.s.otherHeight(-1, li.i), Index: 0, Tx: tx,
		TxResult: abci.ResponseDeliverTx{Data: []byte("r"), GasWanted: 1, GasUsed: 1}}
	if prove {
		r.Proof = types.Txs{tx}.Proof(0)
		if tb := l.s.ch.Blocks[r.Height]; tb != nil && li.fix >= 2 {
			r.Proof.RootHash = tb.DataHash // claims the real data hash as its root
		}
	}
	return r
}

// ---------------------------------------------------------------- block results

func (l *liar) BlockResults(ctx context.Context, height *int64) (*ctypes.ResultBlockResults, error) {
	res, err := l.honest.BlockResults(ctx, height)
	if li := l.take("block_results"); li != nil && err == nil && res != nil {
		before := canonBlockResults(res)
		txs := make([]*abci.ResponseDeliverTx, len(res.TxsResults))
		for i, r := range res.TxsResults {
			c := *r
			txs[i] = &c
		}
		n := len(txs)
		switch li.field {
		case "height":
			res.Height += delta(li.x)
		case "tx_add":
			txs = append(txs, &abci.ResponseDeliverTx{Code: 0, Data: []byte("forged"), GasWanted: 1, GasUsed: 1})
		case "begin_events":
			res.BeginBlockEvents = append(append([]abci.Event{}, res.BeginBlockEvents...), abci.Event{Type: "forged"})
		case "end_events":
			res.EndBlockEvents = append(append([]abci.Event{}, res.EndBlockEvents...), abci.Event{Type: "forged"})
		case "val_updates":
			res.ValidatorUpdates = append(append([]abci.ValidatorUpdate{}, res.ValidatorUpdates...),
				abci.Ed25519ValidatorUpdate(chaingen.Key(2000+li.x).PubKey().Bytes(), int64(li.x)))
		case "param_updates":
			res.ConsensusParamUpdates = &abci.ConsensusParams{Block: &abci.BlockParams{MaxBytes: int64(1000 + li.x), MaxGas: -1}}
		case "other_height":
			oh := l.s.otherHeight(res.Height, li.i)
			if o, err := l.honest.BlockResults(ctx, &oh); err == nil {
				res, txs = o, o.TxsResults
			}
		default:
			if n == 0 {
				return res, err
			}
			k := li.i % n
			switch li.field {
			case "tx.code":
				txs[k].Code += uint32(li.x%3) + 1
				if li.x&4 != 0 {
					txs[k].Code = 0
				}
			case "tx.data":
				txs[k].Data = flip(txs[k].Data, li.i, li.x)
			case "tx.gas_wanted":
				txs[k].GasWanted += int64(li.x)
			case "tx.gas_used":
				txs[k].GasUsed += int64(li.x)
			case "tx.log":
				txs[k].Log += "x"
			case "tx.info":
				txs[k].Info += "x"
			case "tx.codespace":
				txs[k].Codespace += "x"
			case "tx.events":
				txs[k].Events = append(append([]abci.Event{}, txs[k].Events...), abci.Event{Type: "forged"})
			case "tx_nil":
				txs[k] = nil
			case "tx_drop":
				txs = append(txs[:k], txs[k+1:]...)
			case "tx_swap":
				if n >= 2 {
					c := (k + 1 + li.x%(n-1)) % n
					txs[k], txs[c] = txs[c], txs[k]
				}
			}
		}
		res.TxsResults = txs
		l.fire(li, before, canonBlockResults(res), "block_results."+li.field)
	}
	return res, err
}

// ---------------------------------------------------------------- abci query

func (l *liar) ABCIQuery(ctx context.Context, path string, data tmbytes.HexBytes) (*ctypes.ResultABCIQuery, error) {
	return l.ABCIQueryWithOptions(ctx, path, data, rpcclient.DefaultABCIQueryOptions)
}

func (l *liar) ABCIQueryWithOptions(ctx context.Context, path string, data tmbytes.HexBytes, o rpcclient.ABCIQueryOptions) (*ctypes.ResultABCIQuery, error) {
	res, err := l.honest.ABCIQueryWithOptions(ctx, path, data, o)
	if li := l.take("abci_query"); li != nil && err == nil && res != nil {
		before := canonQuery(res)
		r := &res.Response
		cloneOps := func() []tmcrypto.ProofOp {
			if r.ProofOps == nil {
				return nil
			}
			return append([]tmcrypto.ProofOp{}, r.ProofOps.Ops...)
		}
		ops := cloneOps()
		switch li.field {
		case "value_byte":
			if r.Value != nil {
				r.Value = flip(r.Value, li.i, li.x)
			} else {
				r.Value = []byte("forged")
			}
		case "value_nil":
			r.Value = nil
		case "key_byte":
			r.Key = flip(r.Key, li.i, li.x)
		case "height":
			r.Height += delta(li.x)
		case "code":
			r.Code += uint32(li.x%3) + 1
		case "log":
			r.Log += "x"
		case "index":
			r.Index += int64(li.x)
		case "proof.nil":
			r.ProofOps = nil
		case "forged_store":
			// a coherent forgery: genuine-looking proofs over a state in which the value differs
			if sn := l.s.ms.snaps[r.Height]; sn != nil && r.Value != nil {
				kv := map[string]string{}
				for k, v := range sn.kv {
					kv[k] = v
				}
				nv := flip(r.Value, li.i, li.x)
				kv[string(r.Key)] = string(nv)
				f := buildSnap(sn.h, kv, sn.chain)
				r.Value = nv
				r.ProofOps = f.proofOps(string(r.Key))
			}
		case "transplant.prefix", "transplant.extension", "transplant.urlvariant", "transplant.other":
			// the answer keeps the requested key; value and proof are those of another key
			if ok := l.s.relatedKey(r.Height, string(r.Key), li.field[len("transplant."):], li.i); ok != "" {
				if x, err := l.honest.ABCIQueryWithOptions(ctx, path, []byte(ok), rpcclient.ABCIQueryOptions{Height: r.Height, Prove: true}); err == nil && x.Response.Value != nil {
					r.Value, r.ProofOps = x.Response.Value, x.Response.ProofOps
					if li.fix >= 2 {
						r.Index = x.Response.Index
					}
				}
			}
		case "other_key":
			if ok := l.s.otherKey(r.Height, string(r.Key), li.i); ok != "" {
				if x, err := l.honest.ABCIQueryWithOptions(ctx, path, []byte(ok), rpcclient.ABCIQueryOptions{Height: r.Height, Prove: o.Prove}); err == nil {
					res = x
				}
			}
		case "other_height":
			oh := l.s.otherHeight(r.Height, li.i)
			if x, err := l.honest.ABCIQueryWithOptions(ctx, path, data, rpcclient.ABCIQueryOptions{Height: oh, Prove: o.Prove}); err == nil {
				res = x
			}
		default:
			if len(ops) == 0 {
				return res, err
			}
			k := li.i % len(ops)
			switch li.field {
			case "proof.drop_first":
				ops = ops[1:]
			case "proof.drop_last":
				ops = ops[:len(ops)-1]
			case "proof.op_data_byte":
				ops[k].Data = flip(ops[k].Data, li.i, li.x)
			case "proof.op_type":
				ops[k].Type = []string{"simple:x", "", "iavl:v", merkle.ProofOpValue + " "}[li.x%4]
			case "proof.op_key":
				ops[k].Key = flip(ops[k].Key, li.i, li.x)
			case "proof.swap":
				if len(ops) >= 2 {
					ops[0], ops[1] = ops[1], ops[0]
				}
			case "proof.restate_index", "proof.restate_total":
				// the Merkle proof inside a value op restated: index == total, index +/- 1, total +/- 1
				var vo tmcrypto.ValueOp
				if vo.Unmarshal(ops[k].Data) != nil || vo.Proof == nil {
					return res, err
				}
				pc := *vo.Proof
				if li.field == "proof.restate_index" {
					pc.Index = []int64{pc.Total, pc.Index + 1, pc.Index - 1, pc.Total + 1}[li.x%4]
					if pc.Index < 0 {
						pc.Index = pc.Total
					}
				} else if pc.Total += 1; li.x&1 != 0 && pc.Total > 2 {
					pc.Total -= 2
				}
				vo.Proof = &pc
				if bz, e := vo.Marshal(); e == nil {
					ops[k].Data = bz
				}
			}
			r.ProofOps = &tmcrypto.ProofOps{Ops: ops}
		}
		l.fire(li, before, canonQuery(res), "abci_query."+li.field)
	}
	return res, err
}

// ---------------------------------------------------------------- consensus params / blockchain info

func (l *liar) ConsensusParams(ctx context.Context, height *int64) (*ctypes.ResultConsensusParams, error) {
	res, err := l.honest.ConsensusParams(ctx, height)
	if li := l.take("consensus_params"); li != nil && err == nil && res != nil {
		before := canonParams(res)
		p := &res.ConsensusParams
		switch li.field {
		case "block.max_bytes":
			p.Block.MaxBytes += int64(li.x)
		case "block.max_gas":
			p.Block.MaxGas += int64(li.x)
		case "block.time_iota_ms":
			p.Block.TimeIotaMs += int64(li.x)
		case "evidence.max_age_num_blocks":
			p.Evidence.MaxAgeNumBlocks += int64(li.x)
		case "evidence.max_age_duration":
			p.Evidence.MaxAgeDuration += time.Duration(li.x) * time.Second
		case "evidence.max_bytes":
			p.Evidence.MaxBytes += int64(li.x)
		case "validator.pub_key_types":
			p.Validator.PubKeyTypes = append(append([]string{}, p.Validator.PubKeyTypes...), types.ABCIPubKeyTypeSecp256k1)
		case "version.app_version":
			p.Version.AppVersion += uint64(li.x)
		case "height":
			res.BlockHeight += delta(li.x)
		case "other_height":
			oh := l.s.otherHeight(res.BlockHeight, li.i)
			if o, err := l.honest.ConsensusParams(ctx, &oh); err == nil {
				res = o
			}
		}
		l.fire(li, before, canonParams(res), "consensus_params."+li.field)
	}
	return res, err
}

func (l *liar) BlockchainInfo(ctx context.Context, min, max int64) (*ctypes.ResultBlockchainInfo, error) {
	res, err := l.honest.BlockchainInfo(ctx, min, max)
	if li := l.take("blockchain"); li != nil && err == nil && res != nil {
		before := canonChainInfo(res)
		switch {
		case li.field == "last_height":
			res.LastHeight += delta(li.x)
		case len(res.BlockMetas) == 0:
		default:
			k := li.i % len(res.BlockMetas)
			m := *res.BlockMetas[k]
			hdr := false
			switch li.field {
			case "meta.blockid.hash":
				m.BlockID.Hash = flip(m.BlockID.Hash, li.i, li.x)
			case "meta.blockid.parts":
				m.BlockID.PartSetHeader.Hash = flip(m.BlockID.PartSetHeader.Hash, li.i, li.x)
			case "meta.header.app_hash":
				m.Header.AppHash, hdr = flip(m.Header.AppHash, li.i, li.x), true
			case "meta.header.height":
				m.Header.Height, hdr = m.Header.Height+delta(li.x), true
			case "meta.header.time":
				m.Header.Time, hdr = m.Header.Time.Add(time.Duration(li.x)*time.Millisecond), true
			case "meta.header.data_hash":
				m.Header.DataHash, hdr = flip(m.Header.DataHash, li.i, li.x), true
			case "meta.block_size":
				m.BlockSize += li.x
			case "meta.num_txs":
				m.NumTxs += li.x%3 + 1
			case "meta_drop":
				res.BlockMetas = append(append([]*types.BlockMeta{}, res.BlockMetas[:k]...), res.BlockMetas[k+1:]...)
			case "meta_nil":
				metas := append([]*types.BlockMeta{}, res.BlockMetas...)
				metas[k] = nil
				res.BlockMetas = metas
			}
			if li.field != "meta_drop" && li.field != "meta_nil" {
				if hdr && li.fix > 0 {
					m.BlockID.Hash = m.Header.Hash()
				}
				metas := append([]*types.BlockMeta{}, res.BlockMetas...)
				metas[k] = &m
				res.BlockMetas = metas
			}
		}
		l.fire(li, before, canonChainInfo(res), fmt.Sprintf("blockchain.%s fix=%d", li.field, li.fix))
	}
	return res, err
}
