package lightrpcsim

// The honest full node: the real rpc/core handlers over the chain's stores, application
// and (real kv) indexers, behind a thin rpcclient.Client adapter (rpc/client/local needs a
// whole node.Node).

import (
	"context"

	cfg "github.com/tendermint/tendermint/config"
	"github.com/tendermint/tendermint/consensus"
	"github.com/tendermint/tendermint/libs/bytes"
	"github.com/tendermint/tendermint/libs/log"
	"github.com/tendermint/tendermint/libs/service"
	"github.com/tendermint/tendermint/p2p"
	rpcclient "github.com/tendermint/tendermint/rpc/client"
	"github.com/tendermint/tendermint/rpc/core"
	ctypes "github.com/tendermint/tendermint/rpc/core/types"
	rpctypes "github.com/tendermint/tendermint/rpc/jsonrpc/types"
	sm "github.com/tendermint/tendermint/state"
	blockidxkv "github.com/tendermint/tendermint/state/indexer/block/kv"
	txidxkv "github.com/tendermint/tendermint/state/txindex/kv"
	"github.com/tendermint/tendermint/types"
	dbm "github.com/tendermint/tm-db"

	"verif/chaingen"
)

type stubConsensus struct{ ch *chaingen.Chain }

func (c stubConsensus) GetState() sm.State { return c.ch.State }
func (c stubConsensus) GetValidators() (int64, []*types.Validator) {
	return c.ch.State.LastBlockHeight, c.ch.State.Validators.Validators
}
func (c stubConsensus) GetLastHeight() int64                     { return c.ch.State.LastBlockHeight }
func (c stubConsensus) GetRoundStateJSON() ([]byte, error)       { return []byte("{}"), nil }
func (c stubConsensus) GetRoundStateSimpleJSON() ([]byte, error) { return []byte("{}"), nil }

type stubTransport struct{ chainID string }

func (t stubTransport) Listeners() []string { return nil }
func (t stubTransport) IsListening() bool   { return false }
func (t stubTransport) NodeInfo() p2p.NodeInfo {
	return p2p.DefaultNodeInfo{Network: t.chainID, Moniker: "honest", Other: p2p.DefaultNodeInfoOther{TxIndex: "on"}}
}

// honest implements rpcclient.Client by calling the rpc/core handlers. Methods that are not
// overridden are never used by light/rpc's verifying paths (nil embedded interface).
type honest struct {
	rpcclient.Client
	*service.BaseService
	ctx   *rpctypes.Context
	txIdx *txidxkv.TxIndex
	blIdx *blockidxkv.BlockerIndexer
}

func newHonest(ch *chaingen.Chain) *honest {
	h := &honest{ctx: &rpctypes.Context{}}
	h.BaseService = service.NewBaseService(nil, "honest", h)
	h.txIdx = txidxkv.NewTxIndex(dbm.NewMemDB())
	h.blIdx = blockidxkv.New(dbm.NewPrefixDB(dbm.NewMemDB(), []byte("block_events")))
	core.SetEnvironment(&core.Environment{
		ProxyAppQuery:    ch.ProxyApp.Query(),
		ProxyAppMempool:  ch.ProxyApp.Mempool(),
		StateStore:       ch.StateStore,
		BlockStore:       ch.BlockStore,
		EvidencePool:     sm.EmptyEvidencePool{},
		ConsensusState:   stubConsensus{ch},
		P2PTransport:     stubTransport{ch.GenDoc.ChainID},
		PubKey:           chaingen.Key(0).PubKey(),
		GenDoc:           ch.GenDoc,
		TxIndexer:        h.txIdx,
		BlockIndexer:     h.blIdx,
		ConsensusReactor: &consensus.Reactor{}, // zero value: WaitSync() == false
		Logger:           log.NewNopLogger(),
		Config:           *cfg.DefaultRPCConfig(),
	})
	return h
}

func (h *honest) OnStart() error { return nil }
func (h *honest) OnStop()        {}

// service.Service methods are ambiguous between the two embedded values; resolve them.
func (h *honest) Start() error           { return h.BaseService.Start() }
func (h *honest) Stop() error            { return h.BaseService.Stop() }
func (h *honest) Reset() error           { return h.BaseService.Reset() }
func (h *honest) OnReset() error         { return nil }
func (h *honest) IsRunning() bool        { return h.BaseService.IsRunning() }
func (h *honest) Quit() <-chan struct{}  { return h.BaseService.Quit() }
func (h *honest) String() string         { return "honest" }
func (h *honest) SetLogger(l log.Logger) { h.BaseService.SetLogger(l) }

func (h *honest) Status(context.Context) (*ctypes.ResultStatus, error) { return core.Status(h.ctx) }
func (h *honest) ABCIInfo(context.Context) (*ctypes.ResultABCIInfo, error) {
	return core.ABCIInfo(h.ctx)
}
func (h *honest) ABCIQuery(ctx context.Context, path string, data bytes.HexBytes) (*ctypes.ResultABCIQuery, error) {
	return h.ABCIQueryWithOptions(ctx, path, data, rpcclient.DefaultABCIQueryOptions)
}
func (h *honest) ABCIQueryWithOptions(_ context.Context, path string, data bytes.HexBytes, o rpcclient.ABCIQueryOptions) (*ctypes.ResultABCIQuery, error) {
	return core.ABCIQuery(h.ctx, path, data, o.Height, o.Prove)
}
func (h *honest) Block(_ context.Context, height *int64) (*ctypes.ResultBlock, error) {
	return core.Block(h.ctx, height)
}
func (h *honest) BlockByHash(_ context.Context, hash []byte) (*ctypes.ResultBlock, error) {
	return core.BlockByHash(h.ctx, hash)
}
func (h *honest) BlockResults(_ context.Context, height *int64) (*ctypes.ResultBlockResults, error) {
	return core.BlockResults(h.ctx, height)
}
func (h *honest) Commit(_ context.Context, height *int64) (*ctypes.ResultCommit, error) {
	return core.Commit(h.ctx, height)
}
func (h *honest) Validators(_ context.Context, height *int64, page, perPage *int) (*ctypes.ResultValidators, error) {
	return core.Validators(h.ctx, height, page, perPage)
}
func (h *honest) Tx(_ context.Context, hash []byte, prove bool) (*ctypes.ResultTx, error) {
	return core.Tx(h.ctx, hash, prove)
}
func (h *honest) TxSearch(_ context.Context, query string, prove bool, page, perPage *int, orderBy string) (*ctypes.ResultTxSearch, error) {
	return core.TxSearch(h.ctx, query, prove, page, perPage, orderBy)
}
func (h *honest) BlockSearch(_ context.Context, query string, page, perPage *int, orderBy string) (*ctypes.ResultBlockSearch, error) {
	return core.BlockSearch(h.ctx, query, page, perPage, orderBy)
}
func (h *honest) ConsensusParams(_ context.Context, height *int64) (*ctypes.ResultConsensusParams, error) {
	return core.ConsensusParams(h.ctx, height)
}
func (h *honest) BlockchainInfo(_ context.Context, min, max int64) (*ctypes.ResultBlockchainInfo, error) {
	return core.BlockchainInfo(h.ctx, min, max)
}
func (h *honest) Genesis(context.Context) (*ctypes.ResultGenesis, error) { return core.Genesis(h.ctx) }
func (h *honest) Health(context.Context) (*ctypes.ResultHealth, error)   { return core.Health(h.ctx) }
