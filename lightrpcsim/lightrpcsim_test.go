// Package lightrpcsim: deterministic simulation of the verifying RPC client (light/rpc.Client
// over a real light.Client) against an honest full node (the real rpc/core handlers over a
// generated chain) and against the same node lying in exactly one field of one response.
// Decides C20.
package lightrpcsim

import (
	"bytes"
	"context"
	"encoding/hex"
	"fmt"
	"os"
	"sort"
	"strings"
	"testing"
	"time"

	abci "github.com/tendermint/tendermint/abci/types"
	"github.com/tendermint/tendermint/libs/log"
	tmmath "github.com/tendermint/tendermint/libs/math"
	"github.com/tendermint/tendermint/light"
	"github.com/tendermint/tendermint/light/provider"
	lrpc "github.com/tendermint/tendermint/light/rpc"
	dbs "github.com/tendermint/tendermint/light/store/db"
	tmstate "github.com/tendermint/tendermint/proto/tendermint/state"
	rpcclient "github.com/tendermint/tendermint/rpc/client"
	ctypes "github.com/tendermint/tendermint/rpc/core/types"
	"github.com/tendermint/tendermint/state/txindex"
	"github.com/tendermint/tendermint/types"
	dbm "github.com/tendermint/tm-db"

	"verif/chaingen"
	"verif/simapp"
	"verif/simcore"
)

func TestMain(m *testing.M) {
	simcore.InitProcess()
	os.Exit(m.Run())
}

func TestSim(t *testing.T) { simcore.Main(t, harness) }

var harness = &simcore.Harness{
	Name:   "lightrpcsim",
	Props:  []string{"C20"},
	Config: genConfig,
	New:    newSim,
	MaxOps: 200,
	Real: []string{"light/rpc.Client (every verifying method: Block, BlockByHash, BlockResults, Commit, Validators, Tx, TxSearch, ABCIQueryWithOptions, ConsensusParams, BlockchainInfo; updateLightClientIfNeededTo)",
		"light.Client (sequential / skipping / backwards verification, witness cross-checks) over the real light/store/db on MemDB",
		"rpc/core handlers (Block, BlockByHash, Commit, BlockResults, Validators, ConsensusParams, Tx, TxSearch, ABCIQuery, BlockchainInfo, Status) over a core.Environment built from the chain's real BlockStore, state Store, proxy app connection and the real kv tx / block indexers",
		"types.TxProof / Txs.Proof, crypto/merkle proof runtime + ValueOp, types.Block/BlockMeta/ConsensusParams validation, state.BlockExecutor (chain generation)"},
	Stub: []string{"full node process: no consensus, p2p, mempool or event bus; the indexers are fed block by block the way IndexerService does; rpc/client/local needs a node.Node, so a thin adapter calls the rpc/core functions",
		"application: simapp.RecApp with a Merkle-provable state (app hash = simple-map root over {kv root, hash chain}; Query returns merkle.ValueOp proof ops)",
		"light client providers: read the generated chain directly (all honest; lying providers are C09/lightsim)",
		"lying server: wrapper that falsifies one field of one response (optionally recomputing the hashes a liar can recompute)"},
	Assumptions: []string{"covered = committed to by a header the light client verified: the whole block incl. block id and part-set header (header hash, DataHash, LastCommitHash, EvidenceHash, commit block id), signed headers, validator sets (ValidatorsHash), tx bytes/hash/index and audit path (DataHash), tx results code/data/gas_wanted/gas_used (LastResultsHash of h+1, per spec/core/data_structures.md), key/value/height of queries (AppHash of h+1), block.max_bytes/max_gas (ConsensusHash as implemented by HashedParams)",
		"not covered (either outcome allowed): log/info/codespace/events of results, begin/end-block events, validator and param updates of block results, evidence/validator/version consensus params and time_iota_ms, search totals and omitted search hits, Proof.Total (an audit path does not bind the leaf count), query log/index, block meta size/num_txs, last_height, unproven Tx (prove=false); genuine data for other coordinates than asked",
		"data whose covering header does not exist yet (results / query state of the tip, params of tip+1) need not be returned"},
}

// ---------------------------------------------------------------- configuration

func genConfig(rng *simcore.RNG, env *simcore.Env) simcore.Op {
	c := simcore.Op{}
	c["chain_seed"] = rng.Intn(1 << 30)
	c["nvals"] = rng.Range(1, 5)
	c["extra_keys"] = rng.Range(1, 3)
	c["churn"] = []int{0, 200, 500}[rng.Intn(3)]
	c["initial"] = 1
	if rng.Bool(0.25) {
		c["initial"] = rng.Range(2, 6)
	}
	c["n0"] = rng.Range(10, 30)
	c["txmode"] = []string{"none", "few", "few", "many", "many", "many"}[rng.Intn(6)]
	c["seq"] = rng.Bool(0.4)
	c["tl"] = rng.Intn(3)
	c["nwit"] = rng.Range(1, 3)
	c["prune"] = []int{1000, 1000, 6, 12}[rng.Intn(4)]
	c["root"] = rng.Intn(1001)
	c["age_h"] = rng.Range(1, 200)
	c["period_h"] = rng.Range(300, 1000)
	c["lie"] = []int{0, 300, 600, 900}[rng.Intn(4)]
	c["grow"] = rng.Bool(0.6)
	c["nops"] = rng.Range(25, 70)
	if env.Thorough() {
		c["nops"] = rng.Range(40, 180)
	}
	return c
}

// ---------------------------------------------------------------- system

type loc struct {
	h   int64
	idx int
}

type sim struct {
	env *simcore.Env
	cfg simcore.Op

	ch   *chaingen.Chain
	ms   *mstore
	hon  *honest
	liar *liar
	lc   *light.Client
	rpc  *lrpc.Client

	initial, root int64
	maxKeys       int
	opsLeft       int
	grown         int

	lie  *lie
	lie2 *lie // control field falsified together with lie (same response)

	txLoc   map[string]loc // tx hash -> last (height, index) it was committed at
	txOrder [][]byte       // distinct tx hashes in chain order
	results map[int64]*tmstate.ABCIResponses
	keysAll []string // every application key ever set, in order of first appearance
	keySeen map[string]bool
}

type chainProvider struct{ s *sim }

func (p *chainProvider) ChainID() string { return p.s.ch.GenDoc.ChainID }
func (p *chainProvider) LightBlock(_ context.Context, h int64) (*types.LightBlock, error) {
	s := p.s
	if h == 0 {
		h = s.H()
	}
	if h > s.H() {
		return nil, provider.ErrHeightTooHigh
	}
	lb := s.ch.LightBlock(h)
	if lb == nil {
		return nil, provider.ErrLightBlockNotFound
	}
	pbl, err := lb.ToProto()
	if err != nil {
		panic(err)
	}
	out, err := types.LightBlockFromProto(pbl)
	if err != nil {
		panic(err)
	}
	return out, nil
}
func (p *chainProvider) ReportEvidence(context.Context, types.Evidence) error {
	p.s.env.Count("probe.evidence_reported")
	return nil
}

func newSim(env *simcore.Env, cfg simcore.Op) simcore.Sim {
	s := &sim{env: env, cfg: cfg, ms: newMstore(), initial: int64(cfg.Int("initial")), opsLeft: cfg.Int("nops"),
		txLoc: map[string]loc{}, results: map[int64]*tmstate.ABCIResponses{}, keySeen: map[string]bool{}}
	if s.initial < 1 {
		s.initial = 1
	}
	app := simapp.NewRecApp(32)
	app.AppHashFn = s.ms.appHash
	app.QueryFn = s.ms.query
	nv := cfg.Int("nvals")
	if nv < 1 {
		nv = 1
	}
	r := simcore.NewRNG(uint64(cfg.Int("chain_seed"))*2654435761 + 17)
	powers := make([]int64, nv)
	for i := range powers {
		powers[i] = int64(r.Range(1, 30))
	}
	s.maxKeys = nv + cfg.Int("extra_keys")
	age := time.Duration(cfg.Int("age_h")) * time.Hour
	s.ch = chaingen.New(chaingen.Opts{ChainID: "lightrpcsim", InitialHeight: s.initial, Powers: powers, Genesis: time.Now().Add(-age).UTC(), App: app})
	for i := 0; i < s.maxKeys; i++ {
		s.ch.KnowKey(i)
	}
	s.hon = newHonest(s.ch)
	n0 := cfg.Int("n0")
	if n0 < 3 {
		n0 = 3
	}
	for j := 0; j < n0; j++ {
		txs, round, absent := s.drawBlock(r)
		s.addBlock(txs, round, absent)
	}
	s.liar = &liar{honest: s.hon, s: s}
	s.root = s.initial + (s.H()-s.initial)*int64(cfg.Int("root"))/1000
	opts := []light.Option{light.Logger(log.NewNopLogger()), light.PruningSize(uint16(cfg.Int("prune")))}
	if cfg.Bool("seq") {
		opts = append(opts, light.SequentialVerification())
	} else {
		tl := []tmmath.Fraction{{Numerator: 1, Denominator: 3}, {Numerator: 1, Denominator: 2}, {Numerator: 2, Denominator: 3}}[cfg.Int("tl")%3]
		opts = append(opts, light.SkippingVerification(tl))
	}
	var wit []provider.Provider
	for i := 0; i < cfg.Int("nwit") || i < 1; i++ {
		wit = append(wit, &chainProvider{s})
	}
	to := light.TrustOptions{Period: time.Duration(cfg.Int("period_h")) * time.Hour, Height: s.root, Hash: s.ch.Blocks[s.root].Hash()}
	lc, err := light.NewClient(context.Background(), s.ch.GenDoc.ChainID, to, &chainProvider{s}, wit, dbs.New(dbm.NewMemDB(), "lc"), opts...)
	if err != nil {
		panic(fmt.Sprintf("light.NewClient over an honest chain failed: %v", err))
	}
	s.lc = lc
	s.rpc = lrpc.NewClient(s.liar, lc, lrpc.KeyPathFn(lrpc.DefaultMerkleKeyPathFn()))
	env.Settle()
	return s
}

// drawBlock draws the contents of the next block (read-only).
func (s *sim) drawBlock(r *simcore.RNG) (txs []string, round int, absent []int) {
	h := s.H() + 1
	mode := s.cfg.Str("txmode")
	seen := map[string]bool{}
	add := func(tx string) {
		if !seen[tx] {
			seen[tx] = true
			txs = append(txs, tx)
		}
	}
	if mode != "none" {
		nt := r.Intn(4)
		if mode == "many" {
			switch k := r.Intn(10); {
			case k < 4:
				nt = r.Range(4, 9)
			case k < 7:
				nt = 0
			}
		}
		for t := 0; t < nt; t++ {
			switch r.Weighted([]int{40, 18, 10, 22, 5}) {
			case 0:
				add(fmt.Sprintf("k%d-%d=v%d", h, t, r.Intn(1000)))
			case 1:
				if len(s.keysAll) > 0 {
					add(fmt.Sprintf("%s=w%d-%d", s.keysAll[r.Intn(len(s.keysAll))], h, r.Intn(1000)))
				} else {
					add(fmt.Sprintf("k%d-%d=v%d", h, t, r.Intn(1000)))
				}
			case 2:
				add(fmt.Sprintf("fail%d-%d", h, t))
			case 3:
				// keys over an alphabet with URL-special bytes; short, so that keys which are
				// prefixes of one another and '+' / blank twins occur
				const alpha = "ab+ %/?#&:1"
				n := r.Range(1, 4)
				k := make([]byte, n)
				for j := range k {
					k[j] = alpha[r.Intn(len(alpha))]
				}
				key := string(k)
				if len(s.keysAll) > 0 && r.Bool(0.4) {
					base := s.keysAll[r.Intn(len(s.keysAll))]
					switch r.Intn(3) {
					case 0:
						key = base + key[:1] // extension of an existing key
					case 1:
						key = base[:1+r.Intn(len(base))] // prefix of an existing key
					default:
						if v := urlVariants(base); len(v) > 0 {
							key = v[r.Intn(len(v))]
						}
					}
				}
				add(fmt.Sprintf("%s=v %d", key, r.Intn(1000)))
			case 4:
				add(fmt.Sprintf("once:%d-%d", h, t))
			}
		}
		if r.Bool(float64(s.cfg.Int("churn")) / 1000) {
			pw := int64(0)
			if r.Bool(0.7) {
				pw = int64(r.Range(1, 30))
			}
			add(string(chaingen.ValTx(r.Intn(s.maxKeys), pw)))
		}
		if r.Bool(0.06) {
			add(fmt.Sprintf("param:maxbytes:%d", 1100000+r.Intn(900000)))
		}
	}
	if r.Bool(0.2) {
		round = r.Intn(3)
	}
	vals := s.ch.State.Validators
	total := vals.TotalVotingPower()
	var gone int64
	for i, v := range vals.Validators {
		if r.Bool(0.15) && (gone+v.VotingPower)*3 < total {
			absent = append(absent, i)
			gone += v.VotingPower
		}
	}
	return
}

// addBlock extends the chain by one block and feeds the indexers like IndexerService does.
func (s *sim) addBlock(txs []string, round int, absent []int) {
	spec := chaingen.BlockSpec{Round: int32(round), Absent: map[int]bool{}}
	for _, tx := range txs {
		spec.Txs = append(spec.Txs, []byte(tx))
	}
	vals := s.ch.State.Validators
	total := vals.TotalVotingPower()
	var gone int64
	for _, i := range absent {
		if i >= 0 && i < len(vals.Validators) && !spec.Absent[i] && (gone+vals.Validators[i].VotingPower)*3 < total {
			spec.Absent[i] = true
			gone += vals.Validators[i].VotingPower
		}
	}
	b := s.ch.Next(spec)
	h := b.Height
	resp, err := s.ch.StateStore.LoadABCIResponses(h)
	if err != nil {
		panic(err)
	}
	s.results[h] = resp
	batch := txindex.NewBatch(int64(len(b.Data.Txs)))
	for i, tx := range b.Data.Txs {
		if err := batch.Add(&abci.TxResult{Height: h, Index: uint32(i), Tx: tx, Result: *resp.DeliverTxs[i]}); err != nil {
			panic(err)
		}
		k := string(sha(tx))
		if _, ok := s.txLoc[k]; !ok {
			s.txOrder = append(s.txOrder, sha(tx))
		}
		s.txLoc[k] = loc{h, i}
	}
	if err := s.hon.blIdx.Index(types.EventDataNewBlockHeader{Header: b.Header, NumTxs: int64(len(b.Data.Txs)), ResultBeginBlock: *resp.BeginBlock, ResultEndBlock: *resp.EndBlock}); err != nil {
		panic(err)
	}
	if err := s.hon.txIdx.AddBatch(batch); err != nil {
		panic(err)
	}
	if sn := s.ms.snaps[h]; sn != nil {
		for _, k := range sn.keys {
			if !s.keySeen[k] {
				s.keySeen[k] = true
				s.keysAll = append(s.keysAll, k)
			}
		}
	}
}

// otherHeight picks an existing height different from h (h itself when there is none).
func (s *sim) otherHeight(h int64, i int) int64 {
	n := s.H() - s.initial + 1
	if n <= 1 {
		return h
	}
	c := s.initial + int64(i)%n
	if c == h {
		c = s.initial + (c-s.initial+1)%n
	}
	return c
}

func (s *sim) otherTx(hash []byte, i int) []byte {
	if len(s.txOrder) < 2 {
		return nil
	}
	c := s.txOrder[i%len(s.txOrder)]
	if bytes.Equal(c, hash) {
		c = s.txOrder[(i+1)%len(s.txOrder)]
	}
	return c
}

func (s *sim) otherKey(h int64, key string, i int) string {
	sn := s.ms.snaps[h]
	if sn == nil || len(sn.keys) < 2 {
		return ""
	}
	c := sn.keys[i%len(sn.keys)]
	if c == key {
		c = sn.keys[(i+1)%len(sn.keys)]
	}
	return c
}

// urlVariants: keys that differ from key only where URL escaping is ambiguous.
func urlVariants(key string) []string {
	var out []string
	for _, v := range []string{strings.ReplaceAll(key, "+", " "), strings.ReplaceAll(key, " ", "+"),
		strings.ReplaceAll(key, "%20", " "), strings.ReplaceAll(key, " ", "%20"), strings.ReplaceAll(key, "%2F", "/"), strings.ReplaceAll(key, "/", "%2F")} {
		if v != key {
			out = append(out, v)
		}
	}
	return out
}

// relatedKey picks an existing key of the state at height h that stands in the given
// relation to key ("" when there is none).
func (s *sim) relatedKey(h int64, key, rel string, i int) string {
	sn := s.ms.snaps[h]
	if sn == nil {
		return ""
	}
	var c []string
	for _, k := range sn.keys {
		if k == key {
			continue
		}
		switch rel {
		case "prefix":
			if strings.HasPrefix(key, k) {
				c = append(c, k)
			}
		case "extension":
			if strings.HasPrefix(k, key) {
				c = append(c, k)
			}
		case "urlvariant":
			for _, v := range urlVariants(key) {
				if v == k {
					c = append(c, k)
					break
				}
			}
		default:
			c = append(c, k)
		}
	}
	if len(c) == 0 {
		return ""
	}
	return c[i%len(c)]
}

// ---------------------------------------------------------------- op generation

var methods = []string{"block", "block_by_hash", "commit", "validators", "tx", "tx_search", "block_results", "abci_query", "consensus_params", "blockchain", "status"}
var methodW = []int{10, 6, 6, 8, 14, 8, 10, 14, 7, 4, 1}

func (s *sim) pickH(rng *simcore.RNG) (isNil bool, h int64) {
	H := s.H()
	switch rng.Weighted([]int{15, 10, 10, 35, 12, 6, 4, 3, 2, 3}) {
	case 0:
		return true, 0
	case 1:
		return false, H
	case 2:
		return false, H - 1
	case 3:
		return false, s.initial + int64(rng.Intn(int(H-s.initial+1)))
	case 4:
		return false, s.initial + int64(rng.Intn(int(s.root-s.initial+1)))
	case 5:
		return false, H + 1
	case 6:
		return false, H + int64(rng.Range(2, 20))
	case 7:
		return false, 0
	case 8:
		return false, -3
	}
	return false, s.initial
}

func pickPage(rng *simcore.RNG) (page, pp int) {
	page, pp = -1, -1
	if rng.Bool(0.5) {
		page = rng.Range(1, 3)
	}
	if rng.Bool(0.5) {
		pp = []int{1, 2, 3, 5, 100, 0, 1}[rng.Intn(7)]
	}
	return
}

func lieMethod(m string) string {
	if m == "block_by_hash" {
		return "block"
	}
	return m
}

func (s *sim) Next(rng *simcore.RNG) simcore.Op {
	if s.opsLeft <= 0 {
		return nil
	}
	s.opsLeft--
	H := s.H()
	w := []int{80, 0, 4, 4, 4}
	if s.cfg.Bool("grow") && s.grown < 12 {
		w[1] = 9
	}
	switch rng.Weighted(w) {
	case 1:
		txs, round, absent := s.drawBlock(rng)
		hx := make([]string, len(txs))
		for i, tx := range txs {
			hx[i] = simcore.HexStr([]byte(tx))
		}
		return simcore.Op{"a": "grow", "txs": hx, "round": round, "absent": absent}
	case 2:
		return simcore.Op{"a": "update"}
	case 3:
		_, h := s.pickH(rng)
		return simcore.Op{"a": "verify", "h": h}
	case 4:
		return simcore.Op{"a": "proofs", "h": s.initial + int64(rng.Intn(int(H-s.initial+1)))}
	}
	m := methods[rng.Weighted(methodW)]
	op := simcore.Op{"a": "call", "m": m}
	switch m {
	case "block", "commit", "block_results", "consensus_params":
		n, h := s.pickH(rng)
		op["nil"], op["h"] = n, h
	case "validators":
		n, h := s.pickH(rng)
		op["nil"], op["h"] = n, h
		op["page"], op["pp"] = pickPage(rng)
	case "block_by_hash":
		_, h := s.pickH(rng)
		if b := s.ch.Blocks[h]; b != nil && !rng.Bool(0.05) {
			op["hash"] = simcore.HexStr(b.Hash())
		} else {
			op["hash"] = simcore.HexStr(rng.Bytes(32))
		}
	case "tx":
		if len(s.txOrder) > 0 && !rng.Bool(0.05) {
			op["hash"] = simcore.HexStr(s.txOrder[rng.Intn(len(s.txOrder))])
		} else {
			op["hash"] = simcore.HexStr(rng.Bytes(32))
		}
		op["prove"] = rng.Bool(0.85)
	case "tx_search":
		a := s.initial + int64(rng.Intn(int(H-s.initial+1)))
		switch k := rng.Intn(10); {
		case k < 4:
			op["q"] = fmt.Sprintf("tx.height=%d", a)
		case k < 6 && len(s.keysAll) > 0:
			op["q"] = fmt.Sprintf("app.key='%s'", s.keysAll[rng.Intn(len(s.keysAll))])
		case k < 8:
			op["q"] = fmt.Sprintf("tx.height>=%d AND tx.height<=%d", a, a+int64(rng.Intn(4)))
		case len(s.txOrder) > 0:
			op["q"] = fmt.Sprintf("tx.hash='%X'", s.txOrder[rng.Intn(len(s.txOrder))])
		default:
			op["q"] = fmt.Sprintf("tx.height=%d", a)
		}
		op["prove"] = rng.Bool(0.75)
		op["page"], op["pp"] = pickPage(rng)
		op["order"] = []string{"", "asc", "desc"}[rng.Intn(3)]
	case "abci_query":
		n, h := s.pickH(rng)
		if n {
			h = 0
		}
		op["h"] = h
		he := h
		if he == 0 {
			he = H
		}
		key := "nokey"
		sn := s.ms.snaps[he]
		switch k := rng.Intn(20); {
		case k < 15 && sn != nil && len(sn.keys) > 0:
			key = sn.keys[rng.Intn(len(sn.keys))]
		case k < 18 && len(s.keysAll) > 0:
			key = s.keysAll[rng.Intn(len(s.keysAll))]
		}
		if sn != nil && len(sn.keys) > 0 && rng.Bool(0.2) {
			// a key related to an existing one (often non-existent itself): extension, url twin
			base := sn.keys[rng.Intn(len(sn.keys))]
			if v := urlVariants(base); len(v) > 0 && rng.Bool(0.5) {
				key = v[rng.Intn(len(v))]
			} else {
				key = base + []string{"9", "0", "+", " ", "a"}[rng.Intn(5)]
			}
		}
		op["key"] = simcore.HexStr([]byte(key))
	case "blockchain":
		op["min"], op["max"] = rng.Intn(int(H)+3), rng.Intn(int(H)+3)
	}
	rate := float64(s.cfg.Int("lie")) / 1000
	if m == "commit" || m == "validators" {
		rate *= 0.3
	}
	if m != "status" && rng.Bool(rate) {
		lm := lieMethod(m)
		if m == "block_results" && op.Bool("nil") && rng.Bool(0.15) {
			lm = "status"
		}
		f := lieFields[lm]
		op["lm"], op["lf"] = lm, f[rng.Intn(len(f))]
		op["li"], op["lx"], op["lfix"] = rng.Intn(1<<16), rng.Range(1, 255), rng.Intn(3)
		if f2 := lieFields2[lm]; len(f2) > 0 && rng.Bool(0.5) {
			// a second, control field of the same response falsified together with the first
			op["lf2"], op["lx2"] = f2[rng.Intn(len(f2))], rng.Range(1, 255)
		}
	}
	return op
}

// ---------------------------------------------------------------- apply

type outcome struct {
	res      any
	err      error
	panicked string
}

func hp(op simcore.Op) *int64 {
	if op.Bool("nil") {
		return nil
	}
	h := op.Int64("h")
	return &h
}

func ip(v int) *int {
	if v == -1 {
		return nil
	}
	return &v
}

func (s *sim) invoke(c rpcclient.Client, op simcore.Op) (out outcome) {
	defer func() {
		if r := recover(); r != nil {
			out = outcome{panicked: fmt.Sprint(r)}
		}
	}()
	ctx := context.Background()
	switch op.Str("m") {
	case "block":
		r, err := c.Block(ctx, hp(op))
		return outcome{res: r, err: err}
	case "block_by_hash":
		r, err := c.BlockByHash(ctx, op.Hex("hash"))
		return outcome{res: r, err: err}
	case "commit":
		r, err := c.Commit(ctx, hp(op))
		return outcome{res: r, err: err}
	case "validators":
		r, err := c.Validators(ctx, hp(op), ip(op.Int("page")), ip(op.Int("pp")))
		return outcome{res: r, err: err}
	case "tx":
		r, err := c.Tx(ctx, op.Hex("hash"), op.Bool("prove"))
		return outcome{res: r, err: err}
	case "tx_search":
		r, err := c.TxSearch(ctx, op.Str("q"), op.Bool("prove"), ip(op.Int("page")), ip(op.Int("pp")), op.Str("order"))
		return outcome{res: r, err: err}
	case "block_results":
		r, err := c.BlockResults(ctx, hp(op))
		return outcome{res: r, err: err}
	case "abci_query":
		r, err := c.ABCIQueryWithOptions(ctx, queryPath, op.Hex("key"), rpcclient.ABCIQueryOptions{Height: op.Int64("h"), Prove: true})
		return outcome{res: r, err: err}
	case "consensus_params":
		r, err := c.ConsensusParams(ctx, hp(op))
		return outcome{res: r, err: err}
	case "blockchain":
		r, err := c.BlockchainInfo(ctx, op.Int64("min"), op.Int64("max"))
		return outcome{res: r, err: err}
	case "status":
		r, err := c.Status(ctx)
		return outcome{res: r, err: err}
	}
	return outcome{err: fmt.Errorf("unknown method")}
}

func (s *sim) Apply(op simcore.Op) bool {
	e := s.env
	switch op.Kind() {
	case "grow":
		var txs []string
		seen := map[string]bool{}
		for _, hx := range op.Strs("txs") {
			b, err := hex.DecodeString(hx)
			if err != nil || len(b) == 0 || seen[string(b)] {
				continue
			}
			seen[string(b)] = true
			txs = append(txs, string(b))
		}
		round := op.Int("round")
		if round < 0 || round > 5 {
			round = 0
		}
		s.addBlock(txs, round, op.Ints("absent"))
		s.grown++
		e.Count("op.grow")
	case "update":
		lb, err := s.lc.Update(context.Background(), time.Now())
		e.Settle()
		if err != nil {
			e.Count("probe.lc_update_error")
		}
		e.Logf("update -> %v err=%v", lb != nil, err != nil)
		e.Count("op.update")
	case "verify":
		h := op.Int64("h")
		_, err := s.lc.VerifyLightBlockAtHeight(context.Background(), h, time.Now())
		e.Settle()
		if err != nil && h >= s.initial && h <= s.H() {
			e.Count("probe.lc_verify_error")
		}
		e.Logf("verify %d -> err=%v", h, err != nil)
		e.Count("op.verify")
	case "proofs":
		if !e.Checking("C20") {
			return false
		}
		s.checkProofs(op.Int64("h"))
		e.Count("op.proofs")
	case "call":
		m := op.Str("m")
		known := false
		for _, x := range methods {
			known = known || x == m
		}
		if !known {
			return false
		}
		var li *lie
		if lf := op.Str("lf"); lf != "" {
			li = &lie{method: op.Str("lm"), field: lf, i: op.Int("li"), x: op.Int("lx"), fix: op.Int("lfix")}
			if li.i < 0 {
				li.i = 0
			}
		}
		var li2 *lie
		if lf2 := op.Str("lf2"); lf2 != "" && li != nil {
			li2 = &lie{method: li.method, field: lf2, i: li.i, x: op.Int("lx2"), fix: li.fix}
		}
		s.lie, s.lie2 = li, li2
		out := s.invoke(s.rpc, op)
		e.Settle()
		s.lie, s.lie2 = nil, nil
		e.Count("op.call." + m)
		if li2 != nil && li2.fired {
			e.Count("fault.lie_pair." + li2.method + "." + li2.field)
			if li.fired {
				// the violation class is that of the primary lie; the control field is told along
				li.desc += " TOGETHER WITH " + li2.desc
			} else {
				li = li2
			}
		}
		s.judge(op, li, out)
	default:
		return false
	}
	first, _ := s.lc.FirstTrustedHeight()
	last, _ := s.lc.LastTrustedHeight()
	e.State(op.Kind(), op.Str("m"), op.Str("lf"), s.H()-last, first < s.root, op.Bool("nil"))
	return true
}

// lieClass groups falsified fields into violation classes.
func lieClass(li *lie) string {
	f := li.field
	if li.method == "tx" || li.method == "tx_search" {
		// restated genuine proofs get classes of their own: an audit path does not determine
		// the tree size, so (index, total) restated TOGETHER is a different matter from an index
		// restated under the true total
		switch g := strings.TrimPrefix(f, "tx."); {
		case g == "proof.restate_total", g == "proof.restate_eq_total" && li.fix >= 2:
			return "proof.restated-total"
		case g == "proof.restate_eq_total", g == "proof.restate_index":
			return "proof.restated-index"
		}
	}
	if li.method == "tx_search" {
		if len(f) > 10 && f[:10] == "tx.result." {
			return "result" // same gap as tx.result: results are not tied to LastResultsHash
		}
		return "unverified" // one root cause: TxSearch relays the backend's answer as is
	}
	has := func(p string) bool { return len(f) >= len(p) && f[:len(p)] == p }
	switch li.method {
	case "block":
		for _, p := range []string{"blockid.parts", "header", "data", "last_commit", "evidence"} {
			if has(p) {
				return p
			}
		}
	case "tx", "tx_search":
		switch {
		case has("result."):
			return "result"
		case has("proof."):
			return "proof"
		case f == "tx_byte", f == "hash", f == "index":
			return "tx" // fields of the response outside the proof
		}
	case "block_results":
		switch {
		case has("tx."):
			return "result"
		case has("tx_"):
			return "result-list"
		}
	case "abci_query":
		if has("proof.") {
			return "proof"
		}
	case "consensus_params":
		if has("block.") {
			return "block"
		}
	case "blockchain":
		if f == "meta.blockid.parts" {
			return "blockid.parts"
		}
		for _, p := range []string{"meta.header", "meta.blockid"} {
			if has(p) {
				return p
			}
		}
	}
	return f
}

// consistent applies the consistency predicate of the method to a returned response.
func (s *sim) consistent(op simcore.Op, res any) (bool, string) {
	switch r := res.(type) {
	case *ctypes.ResultBlock:
		return s.okBlock(r)
	case *ctypes.ResultCommit:
		return s.okCommit(r)
	case *ctypes.ResultValidators:
		return s.okValidators(r, op.Int("page"), op.Int("pp"))
	case *ctypes.ResultTx:
		if !op.Bool("prove") {
			return true, ""
		}
		ok, _, why := s.okTx(r)
		return ok, why
	case *ctypes.ResultTxSearch:
		if !op.Bool("prove") || r == nil {
			return true, ""
		}
		for i, t := range r.Txs {
			if ok, _, why := s.okTx(t); !ok {
				return false, fmt.Sprintf("search hit #%d: %s", i, why)
			}
		}
		return true, ""
	case *ctypes.ResultBlockResults:
		return s.okBlockResults(r)
	case *ctypes.ResultABCIQuery:
		return s.okQuery(r)
	case *ctypes.ResultConsensusParams:
		return s.okParams(r)
	case *ctypes.ResultBlockchainInfo:
		return s.okChainInfo(r)
	case *ctypes.ResultStatus:
		return true, ""
	}
	return false, fmt.Sprintf("unexpected result type %T", res)
}

func inRange(h, lo, hi int64) bool { return h >= lo && h <= hi }

// expectOK: the honest node answers this request with data whose covering header exists.
func (s *sim) expectOK(op simcore.Op) bool {
	H, ini := s.H(), s.initial
	isNil, h := op.Bool("nil"), op.Int64("h")
	ctx := context.Background()
	switch op.Str("m") {
	case "block", "commit":
		return isNil || inRange(h, ini, H)
	case "block_by_hash":
		for x := ini; x <= H; x++ {
			if bytes.Equal(s.ch.Blocks[x].Hash(), op.Hex("hash")) {
				return true
			}
		}
		return false
	case "validators":
		if isNil {
			h = H
		}
		if !inRange(h, ini, H) {
			return false
		}
		_, _, ok := pageBounds(op.Int("page"), op.Int("pp"), len(s.valsAt(h).Validators))
		return ok
	case "tx":
		_, ok := s.txLoc[string(op.Hex("hash"))]
		return ok
	case "tx_search":
		_, err := s.hon.TxSearch(ctx, op.Str("q"), op.Bool("prove"), ip(op.Int("page")), ip(op.Int("pp")), op.Str("order"))
		return err == nil
	case "block_results":
		if isNil {
			return H-1 >= ini
		}
		return inRange(h, ini, H-1)
	case "abci_query":
		if h == 0 {
			h = H
		}
		sn := s.ms.snaps[h]
		if sn == nil || !inRange(h, ini, H-1) {
			return false
		}
		_, ok := sn.kv[string(op.Hex("key"))]
		return ok
	case "consensus_params":
		return !isNil && inRange(h, ini, H)
	case "blockchain":
		r, err := s.hon.BlockchainInfo(ctx, op.Int64("min"), op.Int64("max"))
		return err == nil && len(r.BlockMetas) > 0
	case "status":
		return true
	}
	return false
}

// honestSame: with no lie told, the answer must be for the coordinates asked and be exactly
// what the honest node serves for them.
func (s *sim) honestSame(op simcore.Op, res any) (bool, string) {
	ctx := context.Background()
	H := s.H()
	isNil, h := op.Bool("nil"), op.Int64("h")
	want := func(got int64) (bool, string) {
		exp := h
		if isNil {
			exp = H
		}
		if got != exp {
			return false, fmt.Sprintf("asked for height %d (nil=%v, tip %d), got height %d", h, isNil, H, got)
		}
		return true, ""
	}
	eq := func(a, b []byte, err error) (bool, string) {
		if err != nil {
			return false, fmt.Sprintf("honest node does not serve what was returned: %v", err)
		}
		if !bytes.Equal(a, b) {
			return false, "returned data differs from what the honest node serves"
		}
		return true, ""
	}
	switch r := res.(type) {
	case *ctypes.ResultBlock:
		if op.Str("m") == "block" {
			if ok, why := want(r.Block.Height); !ok {
				return ok, why
			}
		} else if !bytes.Equal(r.BlockID.Hash, op.Hex("hash")) {
			return false, "block with another hash than asked"
		}
		hh := r.Block.Height
		x, err := s.hon.Block(ctx, &hh)
		if err != nil {
			return eq(nil, nil, err)
		}
		return eq(canonBlock(r.BlockID, r.Block), canonBlock(x.BlockID, x.Block), nil)
	case *ctypes.ResultCommit:
		if ok, why := want(r.Height); !ok {
			return ok, why
		}
		hh := r.Height
		x, err := s.hon.Commit(ctx, &hh)
		if err != nil {
			return eq(nil, nil, err)
		}
		return eq(canonSignedHeader(&r.SignedHeader), canonSignedHeader(&x.SignedHeader), nil)
	case *ctypes.ResultValidators:
		if ok, why := want(r.BlockHeight); !ok {
			return ok, why
		}
		hh := r.BlockHeight
		x, err := s.hon.Validators(ctx, &hh, ip(op.Int("page")), ip(op.Int("pp")))
		if err != nil {
			return eq(nil, nil, err)
		}
		return eq(canonValidators(r), canonValidators(x), nil)
	case *ctypes.ResultTx:
		x, err := s.hon.Tx(ctx, op.Hex("hash"), op.Bool("prove"))
		if err != nil {
			return eq(nil, nil, err)
		}
		return eq(canonTx(r), canonTx(x), nil)
	case *ctypes.ResultTxSearch:
		x, err := s.hon.TxSearch(ctx, op.Str("q"), op.Bool("prove"), ip(op.Int("page")), ip(op.Int("pp")), op.Str("order"))
		if err != nil {
			return eq(nil, nil, err)
		}
		return eq(canonTxSearch(r), canonTxSearch(x), nil)
	case *ctypes.ResultBlockResults:
		if isNil {
			if r.Height != H-1 {
				return false, fmt.Sprintf("latest provable results are those of %d, got %d", H-1, r.Height)
			}
		} else if r.Height != h {
			return false, fmt.Sprintf("asked for results of %d, got %d", h, r.Height)
		}
		hh := r.Height
		x, err := s.hon.BlockResults(ctx, &hh)
		if err != nil {
			return eq(nil, nil, err)
		}
		return eq(canonBlockResults(r), canonBlockResults(x), nil)
	case *ctypes.ResultABCIQuery:
		x, err := s.hon.ABCIQueryWithOptions(ctx, queryPath, op.Hex("key"), rpcclient.ABCIQueryOptions{Height: op.Int64("h"), Prove: true})
		if err != nil {
			return eq(nil, nil, err)
		}
		return eq(canonQuery(r), canonQuery(x), nil)
	case *ctypes.ResultConsensusParams:
		if !isNil && r.BlockHeight != h {
			return false, fmt.Sprintf("asked for params of %d, got %d", h, r.BlockHeight)
		}
		hh := r.BlockHeight
		x, err := s.hon.ConsensusParams(ctx, &hh)
		if err != nil {
			return eq(nil, nil, err)
		}
		return eq(canonParams(r), canonParams(x), nil)
	case *ctypes.ResultBlockchainInfo:
		x, err := s.hon.BlockchainInfo(ctx, op.Int64("min"), op.Int64("max"))
		if err != nil {
			return eq(nil, nil, err)
		}
		return eq(canonChainInfo(r), canonChainInfo(x), nil)
	}
	return true, ""
}

func (s *sim) judge(op simcore.Op, li *lie, out outcome) {
	e := s.env
	m := op.Str("m")
	fired := li != nil && li.fired
	told := ""
	if fired {
		told = li.method + "." + li.field
	}
	switch {
	case out.panicked != "":
		e.Logf("-> panic lie=%q", told)
	case out.err != nil:
		e.Logf("-> error lie=%q", told)
	default:
		e.Logf("-> ok lie=%q", told)
	}
	if !e.Checking("C20") {
		return
	}
	req := op.String()
	if out.panicked != "" && fired {
		// a malformed answer crashed the verifying method: nothing was returned, so soundness
		// holds; recorded as a robustness observation only
		e.Count("probe.panic_on_lie." + li.method + "." + li.field)
		e.Note("panic on lie %s in %s: %s", told, m, out.panicked)
		return
	}
	if out.panicked != "" {
		e.Count("probe.panic." + m)
		if e.Report("C20", "panic:"+m, "%s panicked (lie told: %q): %s; request %s; tip %d", m, told, out.panicked, req, s.H()) {
			e.Fail("C20", "panic:"+m, "")
		}
		return
	}
	if out.err != nil {
		if fired {
			e.Count("probe.lie_rejected." + li.method)
			return
		}
		if s.expectOK(op) {
			e.Count("probe.honest_rejected." + m)
			sig := "honest-rejected:" + m
			if e.Report("C20", sig, "honest backend, provable request, but %s failed: %v; request %s; tip %d root %d", m, out.err, req, s.H(), s.root) {
				e.Fail("C20", sig, "")
			}
		} else {
			e.Count("probe.unanswerable." + m)
		}
		return
	}
	ok, why := s.consistent(op, out.res)
	if !ok {
		if fired {
			sig := "accepted-lie:" + li.method + "." + lieClass(li)
			e.Count("probe.accepted_lie." + li.method + "." + lieClass(li))
			if e.Report("C20", sig, "lying server falsified %s (i=%d x=%d fix=%d) and %s returned the response without error: %s; request %s", li.desc, li.i, li.x, li.fix, m, why, req) {
				e.Fail("C20", sig, "")
			}
			return
		}
		sig := "honest-mismatch:" + m
		if e.Report("C20", sig, "no lie told, yet %s returned data inconsistent with the chain: %s; request %s", m, why, req) {
			e.Fail("C20", sig, "")
		}
		return
	}
	if fired {
		e.Count("probe.lie_accepted_consistent." + li.method + "." + li.field)
		return
	}
	e.Count("probe.honest_ok." + m)
	if same, why := s.honestSame(op, out.res); !same {
		sig := "honest-mismatch:" + m
		if e.Report("C20", sig, "no lie told, %s succeeded but %s; request %s", m, why, req) {
			e.Fail("C20", sig, "")
		}
	}
}

// ---------------------------------------------------------------- finish

func (s *sim) Finish() {
	if !s.env.Checking("C20") {
		return
	}
	var hs []int64
	for h := range s.ch.Blocks {
		hs = append(hs, h)
	}
	sort.Slice(hs, func(i, j int) bool { return hs[i] < hs[j] })
	for _, h := range hs {
		s.checkProofs(h)
		s.checkResultsHash(h)
	}
}

func (s *sim) Close() {
	if s.ch != nil {
		s.ch.Stop()
	}
}
